package hub

import (
	"crypto/ecdsa"
	"crypto/sha256"
	"fmt"

	"github.com/cosmos/cosmos-sdk/codec"
	codectypes "github.com/cosmos/cosmos-sdk/codec/types"
	sdk "github.com/cosmos/cosmos-sdk/types"
	gethcommon "github.com/ethereum/go-ethereum/common"
	"github.com/ethereum/go-ethereum/crypto"

	mhubtypes "github.com/MinterTeam/mhub2/module/x/mhub2/types"
	oracletypes "github.com/MinterTeam/mhub2/module/x/oracle/types"
)

// Addr20 derives a fixed 20-byte address from a label (no randomness anywhere).
func Addr20(label string) []byte {
	h := sha256.Sum256([]byte("verif-addr:" + label))
	return h[:20]
}

// EthKey derives a fixed secp256k1 key from a label.
func EthKey(label string) *ecdsa.PrivateKey {
	h := sha256.Sum256([]byte("verif-ethkey:" + label))
	k, err := crypto.ToECDSA(h[:])
	if err != nil {
		panic(err)
	}
	return k
}

// Validator bundles the identities of one validator.
type Validator struct {
	Name   string
	Oper   sdk.ValAddress
	Acc    sdk.AccAddress // the validator's own account (same bytes as Oper)
	Orch   sdk.AccAddress // its orchestrator account
	EthKey *ecdsa.PrivateKey
	Eth    gethcommon.Address
}

func NewValidator(name string) Validator {
	b := Addr20("val:" + name)
	k := EthKey("val:" + name)
	return Validator{
		Name: name, Oper: sdk.ValAddress(b), Acc: sdk.AccAddress(b),
		Orch: sdk.AccAddress(Addr20("orch:" + name)), EthKey: k, Eth: crypto.PubkeyToAddress(k.PublicKey),
	}
}

func User(name string) sdk.AccAddress { return sdk.AccAddress(Addr20("user:" + name)) }

// HexAddr derives a fixed 0x-prefixed checksummed external address.
func HexAddr(label string) string { return gethcommon.BytesToAddress(Addr20("eth:" + label)).Hex() }

// DelegateKeysMsg builds a correctly signed MsgDelegateKeys for the validator's
// own account whose sequence *before* this tx is seq (the handler sees seq+1 and signs over seq).
func DelegateKeysMsg(cdc codec.Codec, v Validator, chain string, orch sdk.AccAddress, ethKey *ecdsa.PrivateKey, seq uint64) *mhubtypes.MsgDelegateKeys {
	signMsg := &mhubtypes.DelegateKeysSignMsg{ValidatorAddress: v.Oper.String(), Nonce: seq}
	bz := cdc.MustMarshal(signMsg)
	hash := crypto.Keccak256Hash(bz).Bytes()
	sig, err := mhubtypes.NewEthereumSignature(hash, ethKey)
	if err != nil {
		panic(err)
	}
	return &mhubtypes.MsgDelegateKeys{
		ValidatorAddress:    v.Oper.String(),
		OrchestratorAddress: orch.String(),
		ExternalAddress:     crypto.PubkeyToAddress(ethKey.PublicKey).Hex(),
		EthSignature:        sig,
		ChainId:             chain,
	}
}

// EventMsg wraps an external event into the claim message a validator/orchestrator sends.
func EventMsg(signer sdk.AccAddress, chain string, ev mhubtypes.ExternalEvent) *mhubtypes.MsgSubmitExternalEvent {
	any, err := mhubtypes.PackEvent(ev)
	if err != nil {
		panic(err)
	}
	return &mhubtypes.MsgSubmitExternalEvent{Event: any, Signer: signer.String(), ChainId: chain}
}

// ConfirmMsg wraps a confirmation.
func ConfirmMsg(signer sdk.AccAddress, chain string, c mhubtypes.ExternalTxConfirmation) *mhubtypes.MsgSubmitExternalTxConfirmation {
	any, err := mhubtypes.PackConfirmation(c)
	if err != nil {
		panic(err)
	}
	return &mhubtypes.MsgSubmitExternalTxConfirmation{Confirmation: any, Signer: signer.String(), ChainId: chain}
}

var _ = codectypes.NewAnyWithValue
var _ = fmt.Sprintf
var _ = oracletypes.ModuleName
