package hub

import (
	"sort"
	"time"

	sdk "github.com/cosmos/cosmos-sdk/types"
	stakingtypes "github.com/cosmos/cosmos-sdk/x/staking/types"
)

// ValState is one row of the scripted staking table.
//
// It answers exactly the calls the mhub2 and oracle modules make:
//   - Validator(addr)                 -> exists?  status bonded?
//   - GetBondedValidatorsByPower()    -> bonded rows (order: see Order)
//   - GetLastValidatorPower(addr)     -> Power if bonded else 0 (x/staking deletes the
//     last-power record when a validator leaves the bonded set)
//   - GetLastTotalPower()             -> sum of bonded powers
type ValState struct {
	Oper   string `json:"oper"` // bech32 valoper
	Bonded bool   `json:"bonded"`
	Power  int64  `json:"power"`
	// Unbonding: the validator left the bonded set and its unbonding period is running (status
	// Unbonding: neither IsBonded nor IsUnbonded). Only meaningful when Bonded is false.
	Unbonding bool `json:"unbonding,omitempty"`
	// Jailed: jailed in this block by a module whose BeginBlocker runs before mhub2's (x/slashing, x/evidence).
	// x/staking removes a jailed validator from the power index at once, but its status, its last power and the
	// last total power are only updated by the staking EndBlocker of that block (which runs before mhub2's).
	Jailed bool `json:"jailed,omitempty"`
	// WasJailed: jailed in an earlier block and not unjailed since (x/staking keeps the jailed flag until MsgUnjail; the
	// validator is then Unbonding, not Bonded)
	WasJailed bool `json:"was_jailed,omitempty"`
	// Pending change of this block (a delegation / undelegation / (un)bonding transaction): x/staking updates the
	// validator's tokens at once, but its LAST power, the last total power and its status only in the staking
	// EndBlocker. HasNext marks a pending change, NextPower the power it leads to, NextBonded 0 = status unchanged,
	// 1 = enters the bonded set, 2 = leaves it.
	HasNext    bool  `json:"has_next,omitempty"`
	NextPower  int64 `json:"next_power,omitempty"`
	NextBonded int8  `json:"next_bonded,omitempty"`
	// Removed: the validator record no longer exists (it finished unbonding with no delegation left); the operator
	// may create the validator again later
	Removed bool `json:"removed,omitempty"`
}

// Staking is a scripted types.StakingKeeper. The zero Order returns bonded
// validators by descending power then address (what x/staking's power index
// does); a non-nil Order is a permutation applied on top (C09 tie-break
// exploration).
type Staking struct {
	Vals  []ValState
	Order []int
}

func (s *Staking) Clone() []ValState { return append([]ValState(nil), s.Vals...) }

func (s *Staking) find(oper sdk.ValAddress) *ValState {
	o := oper.String()
	for i := range s.Vals {
		if s.Vals[i].Oper == o && !s.Vals[i].Removed {
			return &s.Vals[i]
		}
	}
	return nil
}

func (s *Staking) mk(v ValState) stakingtypes.Validator {
	st := stakingtypes.Unbonded
	if v.Bonded {
		st = stakingtypes.Bonded
	} else if v.Unbonding {
		st = stakingtypes.Unbonding
	}
	return stakingtypes.Validator{
		OperatorAddress: v.Oper,
		Jailed:          v.Jailed || v.WasJailed,
		Status:          st,
		Tokens:          sdk.NewInt(curStake(v)).Mul(sdk.DefaultPowerReduction),
		DelegatorShares: sdk.NewDec(curStake(v)),
	}
}

// curStake: the validator's tokens right now (a pending change of this block included).
func curStake(v ValState) int64 {
	if v.HasNext {
		return v.NextPower
	}
	return v.Power
}

func (s *Staking) bonded() []ValState {
	var out []ValState
	for _, v := range s.Vals {
		if v.Bonded && !v.Jailed && !v.Removed {
			out = append(out, v)
		}
	}
	sort.SliceStable(out, func(i, j int) bool {
		if curStake(out[i]) != curStake(out[j]) {
			return curStake(out[i]) > curStake(out[j])
		}
		return out[i].Oper < out[j].Oper
	})
	if len(s.Order) == len(out) {
		p := make([]ValState, len(out))
		for i, j := range s.Order {
			p[i] = out[j]
		}
		out = p
	}
	return out
}

func (s *Staking) GetBondedValidatorsByPower(ctx sdk.Context) []stakingtypes.Validator {
	var out []stakingtypes.Validator
	for _, v := range s.bonded() {
		out = append(out, s.mk(v))
	}
	return out
}

func (s *Staking) GetLastValidatorPower(ctx sdk.Context, operator sdk.ValAddress) int64 {
	if v := s.find(operator); v != nil && v.Bonded {
		return v.Power
	}
	return 0
}

func (s *Staking) GetLastTotalPower(ctx sdk.Context) sdk.Int {
	t := sdk.ZeroInt()
	for _, v := range s.Vals {
		if v.Bonded && !v.Removed {
			t = t.Add(sdk.NewInt(v.Power))
		}
	}
	return t
}

func (s *Staking) IterateValidators(ctx sdk.Context, cb func(int64, stakingtypes.ValidatorI) bool) {
	for i, v := range s.Vals {
		if v.Removed {
			continue
		}
		if cb(int64(i), s.mk(v)) {
			return
		}
	}
}

func (s *Staking) IterateBondedValidatorsByPower(ctx sdk.Context, cb func(int64, stakingtypes.ValidatorI) bool) {
	for i, v := range s.bonded() {
		if cb(int64(i), s.mk(v)) {
			return
		}
	}
}

func (s *Staking) IterateLastValidators(ctx sdk.Context, cb func(int64, stakingtypes.ValidatorI) bool) {
	s.IterateBondedValidatorsByPower(ctx, cb)
}

func (s *Staking) Validator(ctx sdk.Context, addr sdk.ValAddress) stakingtypes.ValidatorI {
	if v := s.find(addr); v != nil {
		return s.mk(*v)
	}
	return nil
}

func (s *Staking) ValidatorByConsAddr(sdk.Context, sdk.ConsAddress) stakingtypes.ValidatorI {
	return nil
}

func (s *Staking) GetParams(sdk.Context) stakingtypes.Params { return stakingtypes.DefaultParams() }

func (s *Staking) GetValidator(ctx sdk.Context, addr sdk.ValAddress) (stakingtypes.Validator, bool) {
	if v := s.find(addr); v != nil {
		return s.mk(*v), true
	}
	return stakingtypes.Validator{}, false
}

func (s *Staking) ValidatorQueueIterator(sdk.Context, time.Time, int64) sdk.Iterator { return nil }
func (s *Staking) Slash(sdk.Context, sdk.ConsAddress, int64, int64, sdk.Dec)          {}
func (s *Staking) Jail(sdk.Context, sdk.ConsAddress)                                  {}

// EndBlocker is what the staking EndBlocker does to jailed validators: they leave the bonded set for good
// (status Unbonding, no last power).
func (s *Staking) EndBlocker() {
	for i := range s.Vals {
		if v := &s.Vals[i]; v.HasNext {
			v.Power = v.NextPower
			switch v.NextBonded {
			case 1:
				v.Bonded, v.Unbonding, v.WasJailed = true, false, false
			case 2:
				v.Bonded, v.Unbonding = false, true // status Unbonding for the unbonding period (never shorter than any path explored)
			}
			v.HasNext, v.NextPower, v.NextBonded = false, 0, 0
		}
	}
	for i := range s.Vals {
		if s.Vals[i].Jailed {
			s.Vals[i].Jailed, s.Vals[i].Bonded, s.Vals[i].Unbonding, s.Vals[i].WasJailed = false, false, true, true
		}
	}
}
