#!/usr/bin/env python3
"""C08, Minter half: hub <-> real connector main-loop code <-> Minter multisig model (see mcconn/harness/verif_c08m_test.go.txt).
Builds the connector overlay + harness test binary from /repo's current tree, runs the configurations in parallel shard
processes, classifies findings against known_findings.json and MERGES its coverage into evidence/C08.json (written just
before by hubmc for the Ethereum half). exit 0 / 1 (VIOLATION printed) / 3."""
import json, os, subprocess, sys, time, shutil, glob

V = os.path.dirname(os.path.dirname(os.path.abspath(__file__)))
tier = sys.argv[1] if len(sys.argv) > 1 else "quick"
B = f"{V}/.build/c20"
env = dict(os.environ, GOFLAGS="-mod=mod", GOPROXY="off", GOSUMDB="off", GOTOOLCHAIN="local")
start = time.time()
REPO = os.environ.get("VERIF_REPO", "/repo")

def sh(cmd, cwd=None):
    return subprocess.run(cmd, cwd=cwd, env=env, stdout=subprocess.PIPE, stderr=subprocess.STDOUT, text=True)

def fail(msg, out=""):
    print("INTERNAL ERROR:", msg)
    if out:
        print(out[-4000:])
    sys.exit(3)

os.makedirs(B, exist_ok=True)
for f in glob.glob(f"{B}/shard-minterloop-*.json"):
    os.remove(f)
r = sh(["go", "build", "-o", f"{V}/.build/connov", "."], cwd=f"{V}/tools/connov")
if r.returncode:
    fail("connov build failed", r.stdout)
shutil.rmtree(f"{B}/src", ignore_errors=True)
r = sh([f"{V}/.build/connov", "-repo", REPO, "-harness", f"{V}/mcconn", "-out", B])
if r.returncode:
    fail("overlay generation failed", r.stdout)
r = sh(["go", "test", "-c", "-vet=off", f"-modfile={B}/alt.mod", f"-overlay={B}/overlay.json", "-o", f"{B}/conn.test", "./cmd/mhub-minter-connector"], cwd=f"{REPO}/minter-connector")
if r.returncode:
    fail("harness build failed (the connector / module under /repo does not compile with the harness)", r.stdout)

NSH = 8
procs = []
for i in range(NSH):
    out = f"{B}/shard-minterloop-{i}.json"
    e = dict(env, VERIF_C20_MODE="minterloop", VERIF_C20_TIER=tier, VERIF_C20_SHARD=f"{i}/{NSH}", VERIF_C20_OUT=out)
    log = open(f"{B}/shard-minterloop-{i}.log", "w")
    procs.append((i, out, subprocess.Popen([f"{B}/conn.test", "-config", f"{B}/config.toml"], env=e, stdout=log, stderr=subprocess.STDOUT, cwd=B)))
for i, out, p in procs:
    if p.wait() != 0 or not os.path.exists(out):
        fail(f"shard {i} failed", open(f"{B}/shard-minterloop-{i}.log").read())

agg = {"outcomes": {}, "violations": {}, "violation_counts": {}, "samples": [], "states": 0, "sessions": 0, "histories": 0, "complete": True}
for i in range(NSH):
    s = json.load(open(f"{B}/shard-minterloop-{i}.json"))
    for k in ("states", "sessions", "histories"):
        agg[k] += s[k]
    agg["complete"] = agg["complete"] and s["complete"]
    for k, v in s["outcomes"].items():
        agg["outcomes"][k] = agg["outcomes"].get(k, 0) + v
    for k, v in s["violation_counts"].items():
        agg["violation_counts"][k] = agg["violation_counts"].get(k, 0) + v
    for k, v in s["violations"].items():
        agg["violations"].setdefault(k, v)
    agg["samples"] += (s.get("samples") or [])[:1]

known = {}
try:
    for f in json.load(open(f"{V}/known_findings.json")).get("findings", []):
        if f["property"] == "C08":
            known[f["signature"]] = f["what"]
except Exception as ex:
    fail(f"known findings file unreadable: {ex}")

rc, nviol, hit = 0, 0, []
os.makedirs(f"{V}/replays/C08", exist_ok=True)
for sig in sorted(agg["violations"]):
    v, n = agg["violations"][sig], agg["violation_counts"][sig]
    if sig in known:
        hit.append(f"{sig} x{n}")
        print(f"KNOWN-FINDING: property=C08 {known[sig]} (signature {sig}, {n} occurrences, e.g. {v['history']})")
        continue
    nviol += 1
    path = f"{V}/replays/C08/minter_{''.join(c if c.isalnum() else '_' for c in sig)[:70]}.json"
    json.dump(v, open(path, "w"), indent=1)
    print(f"VIOLATION property=C08 replay={path}")
    print(f"  rule={v['rule']} site={v['site']} ({n} occurrences)\n  {v['detail']}\n  history={v['history']}")
    rc = 1

ev_path = f"{V}/evidence/C08.json"
try:
    ev = json.load(open(ev_path))
except Exception:
    ev = {"property_id": "C08", "tier": tier, "seed": 0, "level": "model_checking", "coverage": {"states": 0, "transitions": 0, "traces_validated_against_impl": 0, "samples": []}, "assumptions": [], "wall_s": 0, "violations": 0}
c = ev["coverage"]
c["minter_loop"] = {
    "configurations": agg["histories"], "states": agg["states"], "transitions": agg["sessions"], "exhaustive": agg["complete"],
    "nonvacuity_counters": agg["outcomes"], "known_findings_hit": hit, "samples": agg["samples"][:3],
    "rule": "per configuration (power vector + seed history) breadth-first search over (hub KV state, Minter blocks + multisig account, per-validator connector status file and running flag); operations: hub block, one main-loop iteration of a validator's connector (real relayMinterEvents, relayBatches, relayValsets; real LoadStatus + GetLatestMinterBlockAndNonce when the process starts), restart, Minter deposit, hub withdrawal, power change, Settle (all connectors and blocks until nothing changes); every submission to the Minter multisig model is judged against the hub's outgoing tx of that sequence and its confirmations",
}
c["states"] = c.get("states", 0) + agg["states"]
c["transitions"] = c.get("transitions", 0) + agg["sessions"]
c["traces_validated_against_impl"] = c.get("traces_validated_against_impl", 0) + agg["sessions"]
c["exhaustive"] = bool(c.get("exhaustive", True)) and agg["complete"]
ev["assumptions"] = ev.get("assumptions", []) + [
    "Minter half: the Minter node is a model (blocks; a multisig account accepting a transaction iff nonce = last+1, every signature recovered by minter-go-sdk belongs to a distinct member and their weights reach the threshold); the multisig is created from the hub's first Minter signer set with the weights relayValsets computes and threshold 667",
    "Minter half: the hub is served to the connector through an in-process gRPC connection running the real QueryServer on the open block; what a connector commits is delivered to the hub as that validator's orchestrator",
]
ev["violations"] = ev.get("violations", 0) + nviol
ev["wall_s"] = ev.get("wall_s", 0) + (time.time() - start)
json.dump(ev, open(ev_path, "w"), indent=1)
print(f"C08 (Minter half) {tier}: configurations={agg['histories']} states={agg['states']} transitions={agg['sessions']} counters={agg['outcomes']} exhaustive={agg['complete']} known={len(hit)} wall={time.time()-start:.1f}s exit={rc}")
sys.exit(rc)
