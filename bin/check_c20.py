#!/usr/bin/env python3
"""C20 driver: builds the overlay of minter-connector from /repo's current tree, compiles the harness
test binary (package main of the connector + overlay-only harness), runs the cursor exploration and the
command grid in 16 shard processes, merges the shard results, classifies findings against
known_findings.json, writes evidence/C20.json.  exit 0 held / 1 VIOLATION / 3 internal error."""
import json, os, subprocess, sys, time, glob, shutil

V = os.path.dirname(os.path.dirname(os.path.abspath(__file__)))
tier = sys.argv[1] if len(sys.argv) > 1 else os.environ.get("VERIF_TIER", "quick")
B = f"{V}/.build/c20"
env = dict(os.environ, GOFLAGS="-mod=mod", GOPROXY="off", GOSUMDB="off", GOTOOLCHAIN="local")
start = time.time()
REPO = os.environ.get("VERIF_REPO", "/repo")


def sh(cmd, cwd=None, **kw):
    return subprocess.run(cmd, cwd=cwd, env=env, stdout=subprocess.PIPE, stderr=subprocess.STDOUT, text=True, **kw)


def fail(msg, out=""):
    print("INTERNAL ERROR:", msg)
    if out:
        print(out[-4000:])
    sys.exit(3)


os.makedirs(B, exist_ok=True)
for f in glob.glob(f"{B}/shard-*.json"):
    os.remove(f)
ev_path = f"{V}/evidence/C20.json"
if os.path.exists(ev_path):
    os.remove(ev_path)

r = sh(["go", "build", "-o", f"{V}/.build/connov", "."], cwd=f"{V}/tools/connov")
if r.returncode:
    fail("connov build failed", r.stdout)
shutil.rmtree(f"{B}/src", ignore_errors=True)
r = sh([f"{V}/.build/connov", "-repo", REPO, "-harness", f"{V}/mcconn", "-out", B])
if r.returncode:
    fail("overlay generation failed (connector sources changed shape?)", r.stdout)
print(r.stdout.strip())
r = sh(["go", "test", "-c", "-vet=off", f"-modfile={B}/alt.mod", f"-overlay={B}/overlay.json", "-o", f"{B}/conn.test",
        "./cmd/mhub-minter-connector"], cwd=f"{REPO}/minter-connector")
if r.returncode:
    fail("harness build failed (the connector under /repo does not compile with the harness)", r.stdout)

NSH = int(os.environ.get("VERIF_C20_SHARDS", "16"))
procs = []
for mode in ("cursor", "command"):
    for i in range(NSH):
        out = f"{B}/shard-{mode}-{i}.json"
        e = dict(env, VERIF_C20_MODE=mode, VERIF_C20_TIER=tier, VERIF_C20_SHARD=f"{i}/{NSH}", VERIF_C20_OUT=out)
        log = open(f"{B}/shard-{mode}-{i}.log", "w")
        procs.append((mode, i, out, subprocess.Popen([f"{B}/conn.test", "-config", f"{B}/config.toml"], env=e, stdout=log, stderr=subprocess.STDOUT, cwd=B)))
bad = []
for mode, i, out, p in procs:
    rc = p.wait()
    if rc != 0 or not os.path.exists(out):
        bad.append((mode, i, rc))
if bad:
    m, i, rc = bad[0]
    fail(f"shard {m}/{i} exited {rc}", open(f"{B}/shard-{m}-{i}.log").read())

tot = {}
for mode in ("cursor", "command"):
    agg = {"outcomes": {}, "violations": {}, "violation_counts": {}, "samples": [], "complete": True}
    for i in range(NSH):
        s = json.load(open(f"{B}/shard-{mode}-{i}.json"))
        for k, v in s.items():
            if isinstance(v, bool):
                agg[k] = agg.get(k, True) and v
            elif isinstance(v, (int, float)) and k not in ("max_choice_points", "wall_s", "distinct_nontrivial"):
                agg[k] = agg.get(k, 0) + v
        agg["max_choice_points"] = max(agg.get("max_choice_points", 0), s.get("max_choice_points", 0))
        for k, v in s["outcomes"].items():
            agg["outcomes"][k] = agg["outcomes"].get(k, 0) + v
        for k, v in s["violation_counts"].items():
            agg["violation_counts"][k] = agg["violation_counts"].get(k, 0) + v
        for k, v in s["violations"].items():
            agg["violations"].setdefault(k, v)
        agg["samples"] += (s.get("samples") or [])[:1]
    tot[mode] = agg

known = {}
try:
    kf = json.load(open(f"{V}/known_findings.json"))
    for f in kf.get("findings", []):
        if f["property"] == "C20":
            known[f["signature"]] = f["what"]
except Exception as ex:
    fail(f"known findings file unreadable: {ex}")

exit_code = 0
os.makedirs(f"{V}/replays/C20", exist_ok=True)
nviol = 0
hit = []
for mode in ("cursor", "command"):
    for sig in sorted(tot[mode]["violations"]):
        v = tot[mode]["violations"][sig]
        n = tot[mode]["violation_counts"].get(sig, 0)
        if sig in known:
            hit.append(f"{sig} x{n}")
            print(f"KNOWN-FINDING: property=C20 {known[sig]} (signature {sig}, {n} occurrences, e.g. {v['detail']})")
            continue
        nviol += 1
        path = f"{V}/replays/C20/{''.join(c if c.isalnum() else '_' for c in sig)[:80]}.json"
        json.dump(v, open(path, "w"), indent=1)
        print(f"VIOLATION property=C20 replay={path}")
        print(f"  rule={v['rule']} site={v['site']} ({n} occurrences)\n  {v['detail']}")
        if v.get("history"):
            print(f"  history={v['history']} file_at_start={v['file_at_start']} ack={v['ack']} choices={v.get('trace')}")
        exit_code = 1

cur, cmdm = tot["cursor"], tot["command"]
sites = json.load(open(f"{B}/sites.json"))
complete = bool(cur.get("complete", True)) and cur.get("stuck_sessions", 0) == 0
evidence = {
    "property_id": "C20", "tier": tier, "seed": 0, "level": "model_checking",
    "coverage": {
        "states": cur.get("states", 0),
        "transitions": cur.get("sessions", 0),
        "traces_validated_against_impl": cur.get("sessions", 0) + cmdm.get("evaluations", 0),
        "samples": (cur["samples"][:3] + cmdm["samples"][:2]) or ["<none>"],
        "exhaustive": complete,
        "histories": cur.get("histories", 0),
        "sessions_executed": cur.get("sessions", 0),
        "status_writes_checked": cur.get("writes_checked", 0),
        "claims_checked": cur.get("claims_checked", 0),
        "resync_early_stops": cur.get("resync_early_stops", 0),
        "torn_file_states": cur.get("torn_states", 0),
        "stuck_sessions": cur.get("stuck_sessions", 0),
        "max_choice_points_per_session": cur.get("max_choice_points", 0),
        "distinct_session_outcomes": len(cur["outcomes"]),
        "command_grid_evaluations": cmdm.get("evaluations", 0),
        "command_grid_outcome_classes": cmdm["outcomes"],
        "command_pipeline_claims": cmdm.get("claims_checked", 0),
        "evaluations": cur.get("sessions", 0) + cmdm.get("evaluations", 0),
        "distinct_nontrivial": len(cur["outcomes"]) + len(cmdm["outcomes"]),
        "rule": "cursor: for every block history of the tier's families, breadth-first search over (status file contents | missing | torn, chain length already seen); a transition is one connector process lifetime (real LoadStatus, GetLatestMinterBlockAndNonce with every acknowledged nonce 0..max+1, relayMinterEvents calls) under every environment answer (chain length reported at each Status call, one scripted node error, a torn first write); every completed status write is a crash state and is checked against the cursor equation, every committed claim against the reference numbering. command: Cartesian grid type x recipient x fee string x amount through the real ValidateAndComplete and through the relay loop. distinct = outcome classes",
        "redirected_call_sites": [f"{s['file'].replace(REPO + '/', '')}:{s['line']} {s['call']}" for s in sites],
        "known_findings_hit": hit,
        "explanation": "every transition executes the connector's real code compiled from /repo's working tree (go test -c -modfile -overlay); only os.WriteFile/os.ReadFile/time.Sleep calls and the transaction committer's RunServer/CommitTx are redirected to the harness",
    },
    "assumptions": [
        "the Minter node is a scripted api_service.ClientService: it serves exactly the blocks of the history up to the height it last reported, answers an empty list for an empty range, and may fail a bounded number of calls",
        "a crash is possible at every status-file write (complete or torn: os.WriteFile truncates first); crashes elsewhere leave the same file states",
        "the hub's acknowledged nonce is unconstrained (every value 0..max+1 at every restart), as the property quantifies",
        "start_block 0, start nonces 1 (config.example.toml); bridge events are defined by the property: well-formed deposits to the multisig, multisends and numeric-payload multisig edits sent by the multisig",
    ],
    "wall_s": time.time() - start,
    "violations": nviol,
}
os.makedirs(f"{V}/evidence", exist_ok=True)
json.dump(evidence, open(ev_path, "w"), indent=1)
print(f"C20 {tier}: histories={cur.get('histories',0)} states={cur.get('states',0)} sessions={cur.get('sessions',0)} writes_checked={cur.get('writes_checked',0)} claims_checked={cur.get('claims_checked',0)} early_stops={cur.get('resync_early_stops',0)} grid={cmdm.get('evaluations',0)} exhaustive={complete} wall={time.time()-start:.1f}s exit={exit_code}")
sys.exit(exit_code)
