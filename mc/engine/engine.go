// Package engine is a small explicit-state model checker: level-synchronous
// breadth-first search over states produced by calling real code, with
// deduplication on a canonical state key, per-transition oracles, a structural
// watchdog for stuck transitions, known-finding classification and replay.
package engine

import (
	"crypto/sha256"
	"encoding/json"
	"fmt"
	"regexp"
	"runtime"
	"sort"
	"strings"
	"sync"
	"sync/atomic"
	"time"
)

// Op is one element of a scenario alphabet (JSON-serialisable so that paths can be replayed).
type Op struct {
	Kind string   `json:"k"`
	I    []int64  `json:"i,omitempty"`
	S    []string `json:"s,omitempty"`
}

func (o Op) String() string {
	var b strings.Builder
	b.WriteString(o.Kind)
	if len(o.I) > 0 || len(o.S) > 0 {
		b.WriteString("(")
		first := true
		for _, s := range o.S {
			if !first {
				b.WriteString(",")
			}
			first = false
			b.WriteString(s)
		}
		for _, i := range o.I {
			if !first {
				b.WriteString(",")
			}
			first = false
			fmt.Fprintf(&b, "%d", i)
		}
		b.WriteString(")")
	}
	return b.String()
}

// OpN is a convenience constructor.
func OpN(kind string, args ...interface{}) Op {
	o := Op{Kind: kind}
	for _, a := range args {
		switch v := a.(type) {
		case int:
			o.I = append(o.I, int64(v))
		case int64:
			o.I = append(o.I, v)
		case uint64:
			o.I = append(o.I, int64(v))
		case string:
			o.S = append(o.S, v)
		default:
			panic(fmt.Sprintf("OpN: unsupported arg %T", a))
		}
	}
	return o
}

// State is opaque to the engine except for its canonical key.
type State interface{ Key() string }

// Violation is one oracle failure. Signature() identifies the finding for the
// known-findings file: rule + smallest code-level site the oracle can name.
type Violation struct {
	Property string `json:"property"`
	Rule     string `json:"rule"`
	Site     string `json:"site"`
	Detail   string `json:"detail"`
}

func (v Violation) Signature() string { return v.Rule + "|" + v.Site }

// Step is the outcome of applying one op to one state.
type Step struct {
	Next       State // nil: op not applicable / pruned (no successor)
	Violations []Violation
	Pruned     string         // non-empty: successor dropped for this reason (counted)
	Counters   map[string]int // non-vacuity counters contributed by this transition
	Obs        string         // short observable outcome (for diversity statistics)
}

func (s *Step) Count(name string, n int) {
	if s.Counters == nil {
		s.Counters = map[string]int{}
	}
	s.Counters[name] += n
}

func (s *Step) Violate(prop, rule, site, format string, a ...interface{}) {
	s.Violations = append(s.Violations, Violation{Property: prop, Rule: rule, Site: site, Detail: fmt.Sprintf(format, a...)})
}

// Worker is per-goroutine scenario context (holds a live instance).
type Worker interface{}

// Scenario is what a property check implements.
type Scenario interface {
	ID() string
	NewWorker() Worker
	// Seeds builds the initial states (each straight-line on a fresh instance).
	Seeds(w Worker) []State
	// Ops lists the alphabet enabled in s (simplest first).
	Ops(s State) []Op
	// Apply executes op on s using the real code and evaluates the oracles.
	Apply(w Worker, s State, op Op) Step
	// Replay re-executes a path straight-line from seed (no snapshot/restore in
	// between) and returns the step results; used to validate traces and violations.
	Replay(w Worker, seed int, ops []Op) (State, []Step)
}

// StuckClassifier may be implemented by a scenario to classify a transition that
// exceeded the horizon from an all-goroutine stack dump.
type StuckClassifier interface {
	// ClassifyStuck returns violations for a structurally proven deadlock, or nil.
	ClassifyStuck(op Op, stackA, stackB string, gid int64) []Violation
}

type Config struct {
	MaxDepth   int
	MaxStates  int
	Deadline   time.Duration // wall clock budget for the search (0 = none)
	Workers    int
	Horizon    time.Duration   // per-transition horizon before the watchdog looks (default 20s)
	Confirm    time.Duration   // time between the two stack dumps that must agree (default 10s)
	Known      map[string]bool // known-finding signatures (property|rule|site)
	ReplayLeaf int             // number of leaf paths to re-execute straight-line
	Quiet      bool
	MemLimit   uint64 // heap bytes above which the search stops expanding (default 18 GiB); reported as a cap
}

type KnownHit struct {
	Violation Violation `json:"violation"`
	Path      []Op      `json:"path"`
	Seed      int       `json:"seed"`
	Count     int       `json:"count"`
}

type Found struct {
	Violation  Violation `json:"violation"`
	Path       []Op      `json:"path"`
	Seed       int       `json:"seed"`
	Reproduced int       `json:"reproduced"`
}

type Result struct {
	Scenario       string
	States         int
	Transitions    int
	MaxDepth       int
	LevelSizes     []int
	Exhaustive     bool
	CapHit         string
	Counters       map[string]int
	OpCounts       map[string]int
	Pruned         map[string]int
	DistinctObs    int
	Known          map[string]*KnownHit
	Violations     []Found
	Replays        int // straight-line replays executed
	ReplayMismatch []string
	Samples        [][]string
	Stuck          int
	Wall           time.Duration
	InternalError  string
}

// hashKey: states are identified by the SHA-256 of their canonical key (the keys themselves run to kilobytes).
func hashKey(k string) string {
	h := sha256.Sum256([]byte(k))
	return string(h[:])
}

type node struct {
	key    string
	parent *node
	op     Op
	depth  int
	seed   int
	state  State
}

func (n *node) path() []Op {
	var rev []Op
	for x := n; x.parent != nil; x = x.parent {
		rev = append(rev, x.op)
	}
	for i, j := 0, len(rev)-1; i < j; i, j = i+1, j-1 {
		rev[i], rev[j] = rev[j], rev[i]
	}
	return rev
}

type task struct {
	idx int
	n   *node
	op  Op
}

type taskResult struct {
	idx     int
	step    Step
	stuck   bool
	skipped bool
}

type wstate struct {
	id        int
	gid       int64
	startNano int64 // 0 = idle
	curOp     atomic.Value
	abandoned int32
}

var gidRe = regexp.MustCompile(`^goroutine (\d+) `)

func curGID() int64 {
	buf := make([]byte, 64)
	buf = buf[:runtime.Stack(buf, false)]
	m := gidRe.FindSubmatch(buf)
	if m == nil {
		return -1
	}
	var id int64
	fmt.Sscanf(string(m[1]), "%d", &id)
	return id
}

func allStacks() string {
	buf := make([]byte, 1<<20)
	for {
		n := runtime.Stack(buf, true)
		if n < len(buf) {
			return string(buf[:n])
		}
		buf = make([]byte, 2*len(buf))
	}
}

// GoroutineBlock extracts the stack of goroutine gid from an all-stacks dump.
func GoroutineBlock(dump string, gid int64) string {
	marker := fmt.Sprintf("goroutine %d [", gid)
	i := strings.Index(dump, marker)
	if i < 0 {
		return ""
	}
	rest := dump[i:]
	if j := strings.Index(rest, "\n\n"); j >= 0 {
		return rest[:j]
	}
	return rest
}

// Run explores the scenario.
func Run(sc Scenario, cfg Config) *Result {
	start := time.Now()
	if cfg.Workers <= 0 {
		cfg.Workers = runtime.NumCPU()
	}
	if cfg.Horizon == 0 {
		cfg.Horizon = 20 * time.Second
	}
	if cfg.Confirm == 0 {
		cfg.Confirm = 10 * time.Second
	}
	if cfg.MemLimit == 0 {
		cfg.MemLimit = 18 << 30
	}
	res := &Result{Scenario: sc.ID(), Counters: map[string]int{}, OpCounts: map[string]int{}, Pruned: map[string]int{}, Known: map[string]*KnownHit{}, Exhaustive: true}
	obs := map[string]bool{}

	w0 := sc.NewWorker()
	seeds := sc.Seeds(w0)
	seen := map[string]*node{}
	var frontier []*node
	for i, s := range seeds {
		k := hashKey(s.Key())
		if _, ok := seen[k]; ok {
			continue
		}
		n := &node{key: k, state: s, seed: i}
		seen[k] = n
		frontier = append(frontier, n)
	}
	res.States = len(seen)
	res.LevelSizes = append(res.LevelSizes, len(frontier))

	// worker pool with watchdog
	tasks := make(chan task, 1024)
	results := make(chan taskResult, 1024)
	var wsMu sync.Mutex
	var abort int32 // set when an unknown violation has been seen: remaining tasks of the chunk are skipped
	var workers []*wstate
	var spawn func()
	spawn = func() {
		ws := &wstate{id: len(workers)}
		wsMu.Lock()
		workers = append(workers, ws)
		wsMu.Unlock()
		go func() {
			ws.gid = curGID()
			w := sc.NewWorker()
			for t := range tasks {
				if atomic.LoadInt32(&abort) == 1 {
					results <- taskResult{idx: t.idx, skipped: true}
					continue
				}
				ws.curOp.Store(t)
				atomic.StoreInt64(&ws.startNano, time.Now().UnixNano())
				st := sc.Apply(w, t.n.state, t.op)
				atomic.StoreInt64(&ws.startNano, 0)
				if atomic.LoadInt32(&ws.abandoned) == 1 {
					return // result already reported by the watchdog
				}
				results <- taskResult{idx: t.idx, step: st}
			}
		}()
	}
	for i := 0; i < cfg.Workers; i++ {
		spawn()
	}
	stopWatch := make(chan struct{})
	go func() {
		tick := time.NewTicker(time.Second)
		defer tick.Stop()
		firstDump := map[*wstate]string{}
		firstAt := map[*wstate]time.Time{}
		for {
			select {
			case <-stopWatch:
				return
			case <-tick.C:
			}
			wsMu.Lock()
			ws := append([]*wstate(nil), workers...)
			wsMu.Unlock()
			for _, w := range ws {
				if atomic.LoadInt32(&w.abandoned) == 1 {
					continue
				}
				st := atomic.LoadInt64(&w.startNano)
				if st == 0 {
					delete(firstDump, w)
					continue
				}
				el := time.Since(time.Unix(0, st))
				if el < cfg.Horizon {
					continue
				}
				if _, ok := firstDump[w]; !ok {
					firstDump[w] = allStacks()
					firstAt[w] = time.Now()
					continue
				}
				if time.Since(firstAt[w]) < cfg.Confirm {
					continue
				}
				// still in the same transition 10 s after the first dump
				if atomic.LoadInt64(&w.startNano) != st {
					delete(firstDump, w)
					continue
				}
				second := allStacks()
				t := w.curOp.Load().(task)
				var step Step
				if c, ok := sc.(StuckClassifier); ok {
					step.Violations = c.ClassifyStuck(t.op, firstDump[w], second, w.gid)
				}
				if len(step.Violations) == 0 {
					step.Pruned = "stuck_transition_unclassified"
				}
				atomic.StoreInt32(&w.abandoned, 1)
				delete(firstDump, w)
				results <- taskResult{idx: t.idx, step: step, stuck: true}
				spawn()
			}
		}
	}()
	defer close(stopWatch)

	const chunk = 20000
	var firstViolation *Found
	stop := false

	for depth := 0; len(frontier) > 0 && !stop; depth++ {
		if cfg.MaxDepth > 0 && depth >= cfg.MaxDepth {
			// frontier left unexpanded because of the depth bound: that is the bound, not a cap
			break
		}
		var all []task
		for _, n := range frontier {
			for _, op := range sc.Ops(n.state) {
				all = append(all, task{n: n, op: op})
			}
		}
		var next []*node
		for off := 0; off < len(all) && !stop; off += chunk {
			end := off + chunk
			if end > len(all) {
				end = len(all)
			}
			part := all[off:end]
			out := make([]taskResult, len(part))
			go func() {
				for i := range part {
					part[i].idx = i
					tasks <- part[i]
				}
			}()
			for i := 0; i < len(part); i++ {
				r := <-results
				out[r.idx] = r
				for _, v := range r.step.Violations {
					if !cfg.Known[v.Property+"|"+v.Signature()] {
						// tasks are dequeued in index order, so every lower-index task has already started
						atomic.StoreInt32(&abort, 1)
					}
				}
			}
			for i, r := range out {
				t := part[i]
				if r.skipped {
					continue
				}
				res.Transitions++
				res.OpCounts[t.op.Kind]++
				if r.stuck {
					res.Stuck++
				}
				for k, v := range r.step.Counters {
					res.Counters[k] += v
				}
				if r.step.Obs != "" {
					obs[t.op.Kind+":"+r.step.Obs] = true
				}
				unknown := false
				for _, v := range r.step.Violations {
					sig := v.Property + "|" + v.Signature()
					if cfg.Known[sig] {
						kh := res.Known[sig]
						if kh == nil {
							kh = &KnownHit{Violation: v, Path: append(t.n.path(), t.op), Seed: t.n.seed}
							res.Known[sig] = kh
						}
						kh.Count++
						continue
					}
					unknown = true
					if firstViolation == nil {
						firstViolation = &Found{Violation: v, Path: append(t.n.path(), t.op), Seed: t.n.seed}
					}
				}
				if unknown {
					stop = true
					continue
				}
				if r.step.Pruned != "" {
					res.Pruned[r.step.Pruned]++
					continue
				}
				if r.step.Next == nil {
					continue
				}
				k := hashKey(r.step.Next.Key())
				if _, ok := seen[k]; ok {
					continue
				}
				if cfg.MaxStates > 0 && len(seen) >= cfg.MaxStates {
					res.Exhaustive = false
					res.CapHit = fmt.Sprintf("max_states=%d", cfg.MaxStates)
					continue
				}
				n := &node{key: k, parent: t.n, op: t.op, depth: depth + 1, seed: t.n.seed, state: r.step.Next}
				if cfg.MaxDepth > 0 && depth+1 >= cfg.MaxDepth {
					n.state = nil // a state at the depth bound is never expanded: only its identity is kept
				}
				seen[k] = n
				next = append(next, n)
			}
			if !stop {
				// frontier states hold complete KV snapshots: stop before the machine runs out of memory
				var ms runtime.MemStats
				runtime.ReadMemStats(&ms)
				if ms.HeapAlloc > cfg.MemLimit {
					// most of it may be garbage (the collector runs rarely here): collect, then look again
					runtime.GC()
					runtime.ReadMemStats(&ms)
				}
				if ms.HeapAlloc > cfg.MemLimit {
					res.Exhaustive = false
					res.CapHit = fmt.Sprintf("memory: heap %d MiB > limit %d MiB at depth %d (%d/%d transitions of that level done)", ms.HeapAlloc>>20, cfg.MemLimit>>20, depth+1, end, len(all))
					stop = true
				}
			}
			if cfg.Deadline > 0 && time.Since(start) > cfg.Deadline && !stop {
				if off+chunk < len(all) {
					res.Exhaustive = false
					res.CapHit = fmt.Sprintf("deadline=%s at depth %d (%d/%d transitions of that level done)", cfg.Deadline, depth+1, end, len(all))
					stop = true
				}
			}
		}
		for _, n := range frontier {
			n.state = nil // bodies are only needed while in the frontier
		}
		if len(next) > 0 {
			res.MaxDepth = depth + 1
			res.LevelSizes = append(res.LevelSizes, len(next))
		}
		frontier = next
		res.States = len(seen)
		if cfg.Deadline > 0 && time.Since(start) > cfg.Deadline && len(frontier) > 0 && !stop {
			if !(cfg.MaxDepth > 0 && depth+1 >= cfg.MaxDepth) {
				res.Exhaustive = false
				res.CapHit = fmt.Sprintf("deadline=%s after completing depth %d", cfg.Deadline, depth+1)
				stop = true
			}
		}
	}
	res.DistinctObs = len(obs)
	close(tasks)

	// straight-line validation of sampled leaf paths (and of known-finding paths)
	rw := sc.NewWorker()
	if firstViolation == nil {
		var leaves []*node
		for _, n := range seen {
			if n.depth == res.MaxDepth && n.depth > 0 {
				leaves = append(leaves, n)
			}
		}
		sort.Slice(leaves, func(i, j int) bool { return leaves[i].key < leaves[j].key })
		step := 1
		if cfg.ReplayLeaf > 0 && len(leaves) > cfg.ReplayLeaf {
			step = len(leaves) / cfg.ReplayLeaf
		}
		for i := 0; i < len(leaves) && (cfg.ReplayLeaf <= 0 || res.Replays < cfg.ReplayLeaf); i += step {
			n := leaves[i]
			p := n.path()
			final, _ := sc.Replay(rw, n.seed, p)
			res.Replays++
			if final == nil || hashKey(final.Key()) != n.key {
				res.ReplayMismatch = append(res.ReplayMismatch, pathStrings(p)...)
				res.InternalError = "straight-line replay diverges from snapshot/restore exploration: " + strings.Join(pathStrings(p), " ; ")
				break
			}
			if len(res.Samples) < 3 {
				res.Samples = append(res.Samples, pathStrings(p))
			}
		}
		if len(res.Samples) == 0 {
			for _, n := range seen {
				if n.depth == res.MaxDepth {
					res.Samples = append(res.Samples, pathStrings(n.path()))
					break
				}
			}
		}
	}
	if firstViolation != nil {
		// re-run 5x straight-line in fresh workers; must reproduce the same signature each time
		for i := 0; i < 5 && !notStraightLine(firstViolation.Violation.Rule); i++ {
			w := sc.NewWorker()
			_, steps := sc.Replay(w, firstViolation.Seed, firstViolation.Path)
			ok := false
			if len(steps) == len(firstViolation.Path) {
				for _, v := range steps[len(steps)-1].Violations {
					if v.Signature() == firstViolation.Violation.Signature() {
						ok = true
					}
				}
			}
			if ok {
				firstViolation.Reproduced++
			}
		}
		res.Violations = append(res.Violations, *firstViolation)
		res.Samples = append(res.Samples, pathStrings(firstViolation.Path))
		if firstViolation.Reproduced != 5 && !notStraightLine(firstViolation.Violation.Rule) {
			res.InternalError = fmt.Sprintf("violation %s reproduced only %d/5 times straight-line", firstViolation.Violation.Signature(), firstViolation.Reproduced)
		}
	}
	res.Wall = time.Since(start)
	return res
}

// notStraightLine: verdicts that cannot be re-established by replaying the path in a fresh worker - a structurally
// proven deadlock (the replay would hang) and a dependence on what the process executed before (confirmed inside the
// transition instead).
func notStraightLine(rule string) bool {
	return strings.HasPrefix(rule, "deadlock") || strings.HasPrefix(rule, "nondeterministic")
}

func pathStrings(p []Op) []string {
	out := make([]string, len(p))
	for i, o := range p {
		out[i] = o.String()
	}
	return out
}

// PathJSON serialises a path.
func PathJSON(p []Op) string {
	b, _ := json.Marshal(p)
	return string(b)
}
