package hub

import (
	"reflect"
	"strings"

	sdk "github.com/cosmos/cosmos-sdk/types"

	mhubtypes "github.com/MinterTeam/mhub2/module/x/mhub2/types"
	oracletypes "github.com/MinterTeam/mhub2/module/x/oracle/types"
)

// QueryArgs are the values request fields are filled with (by field name).
type QueryArgs struct {
	Chains     []string
	Validator  string // valoper bech32
	Account    string // account bech32 (orchestrator / holder)
	External   string // 0x address
	Denom      string
	ExternalID string
	TxHash     string
}

// QuerySweep serves every method of the mhub2 and oracle gRPC query servers (one request per chain for requests that
// name a chain) on a branch of ms that is never written back - what baseapp does for a gRPC query. Requests are built by
// reflection over the QueryServer interfaces, so queries added later are swept as well. Failing or panicking queries
// are fine (a query may be rejected); the number of queries served is returned.
func (in *Instance) QuerySweep(ms sdk.MultiStore, a QueryArgs) int {
	ctx := in.ctxOn(ms.CacheMultiStore())
	n := 0
	sweep := func(iface reflect.Type, impl interface{}) {
		iv := reflect.ValueOf(impl)
		for i := 0; i < iface.NumMethod(); i++ {
			m := iface.Method(i)
			if m.Type.NumIn() != 2 || m.Type.In(1).Kind() != reflect.Ptr {
				continue
			}
			fn := iv.MethodByName(m.Name)
			if !fn.IsValid() {
				continue
			}
			chains := []string{""}
			rt := m.Type.In(1).Elem()
			if _, ok := rt.FieldByName("ChainId"); ok {
				chains = a.Chains
			}
			for _, ch := range chains {
				req := reflect.New(rt)
				for f := 0; f < rt.NumField(); f++ {
					fd, fv := rt.Field(f), req.Elem().Field(f)
					if !fv.CanSet() {
						continue
					}
					name := strings.ToLower(fd.Name)
					switch fv.Kind() {
					case reflect.String:
						switch {
						case strings.Contains(name, "chain"):
							fv.SetString(ch)
						case strings.Contains(name, "validator"):
							fv.SetString(a.Validator)
						case strings.Contains(name, "orchestrator"), name == "address" && iface.PkgPath() != "", strings.Contains(name, "holder"):
							fv.SetString(a.Account)
						case strings.Contains(name, "denom"):
							fv.SetString(a.Denom)
						case strings.Contains(name, "hash"):
							fv.SetString(a.TxHash)
						case strings.Contains(name, "externalid"), strings.Contains(name, "token"), strings.Contains(name, "contract"):
							fv.SetString(a.ExternalID)
						case strings.Contains(name, "external"), strings.Contains(name, "signer"), strings.Contains(name, "address"):
							fv.SetString(a.External)
						}
					case reflect.Uint64:
						fv.SetUint(1)
					}
				}
				func() {
					defer func() { _ = recover() }()
					fn.Call([]reflect.Value{reflect.ValueOf(sdk.WrapSDKContext(ctx)), req})
				}()
				n++
			}
		}
	}
	sweep(reflect.TypeOf((*mhubtypes.QueryServer)(nil)).Elem(), in.Hub)
	sweep(reflect.TypeOf((*oracletypes.QueryServer)(nil)).Elem(), in.Oracle)
	return n
}

// SweepBoth serves the sweep on the last committed state and, when a block is open, on the block's working state.
func (in *Instance) SweepBoth(a QueryArgs) int {
	n := in.QuerySweep(in.root, a)
	if in.blockMS != nil {
		n += in.QuerySweep(in.blockMS, a)
	}
	return n
}
