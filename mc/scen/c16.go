package scen

import (
	"bytes"
	"fmt"
	"sort"
	"strings"
	"time"

	codectypes "github.com/cosmos/cosmos-sdk/codec/types"
	sdk "github.com/cosmos/cosmos-sdk/types"

	"verifmc/engine"
	"verifmc/hub"

	mhubtypes "github.com/MinterTeam/mhub2/module/x/mhub2/types"
)

// C16: confirmations are attributable, unique and correctly queryable.
type C16 struct {
	Vals   []hub.Validator // A, B bonded, C unbonded, D unbonding (all with registered keys)
	Chains []string
	User   sdk.AccAddress
	Stranger sdk.AccAddress
	Base   uint64 // batch nonces already used on every chain (genesis field LastOutgoingBatchTxNonce)
	Keyless bool  // a fifth bonded validator E that never registered keys
	Rotate  bool  // validator A may register new keys (MsgDelegateKeys again) after it has confirmed
	Many    bool  // start from more than 100 pending batches on one chain (more than one page of a paginated walk)
	PerChain bool // validator B has one orchestrator account on ethereum and another one on bsc
	Heights bool  // external heights are observed (deposits claimed by all bonded validators), so batches carry real timeouts
	Crowd      bool // 103 validators: more than one page (100) of confirmations under one store index
	Superseded bool // the stake shifts (a second signer set is published) and the newer set's execution is observed while the first one is still inside the signed window
}

func NewC16() *C16 {
	return &C16{Vals: []hub.Validator{hub.NewValidator("A"), hub.NewValidator("B"), hub.NewValidator("C"), hub.NewValidator("D")}, Chains: []string{"ethereum", "bsc"},
		User: hub.User("u1"), Stranger: hub.User("stranger")}
}

func (c *C16) ID() string             { return "C16" }

// orchOn: the orchestrator account validator i registered for the chain.
func (c *C16) orchOn(i int, chain string) sdk.AccAddress {
	if c.PerChain && i == 1 && chain == "bsc" {
		return hub.User("B-orchestrator-on-bsc")
	}
	return c.Vals[i].Orch
}

func otherChain(chain string) string {
	if chain == "ethereum" {
		return "bsc"
	}
	return "ethereum"
}
func (c *C16) Setup(in *hub.Instance) {}
func (c *C16) SeedPaths() [][]engine.Op {
	if c.Base > 0 {
		return [][]engine.Op{{engine.OpN("MkBatch", "ethereum"), engine.OpN("MkBatch", "ethereum"), engine.OpN("MkBatch", "ethereum")}}
	}
	if c.Many {
		return [][]engine.Op{{engine.OpN("MkMany", "ethereum", 101)}}
	}
	if c.Crowd {
		return [][]engine.Op{{engine.OpN("MkBatch", "ethereum"), engine.OpN("ConfirmCrowd", "ethereum", 0), engine.OpN("ConfirmCrowd", "ethereum", 2)}}
	}
	if c.Superseded {
		// signer set 1 confirmed by A and B; the stake shifts, set 2 is published and its execution on ethereum observed
		return [][]engine.Op{{engine.OpN("Confirm", "ethereum", 0, 0, 0, 0), engine.OpN("Confirm", "ethereum", 1, 1, 0, 0), engine.OpN("Shift"), engine.OpN("Next"), engine.OpN("ObserveSet")},
			{engine.OpN("Confirm", "ethereum", 0, 0, 0, 0), engine.OpN("Shift"), engine.OpN("Next")}}
	}
	if c.Heights {
		// an external height is known, then a batch is built (it gets a timeout a few thousand blocks ahead)
		return [][]engine.Op{{engine.OpN("Dep", "ethereum", 500), engine.OpN("Next"), engine.OpN("MkBatch", "ethereum")}}
	}
	return [][]engine.Op{{}, {engine.OpN("MkBatch", "ethereum"), engine.OpN("MkBatch", "bsc"), engine.OpN("MkCall", "ethereum"), engine.OpN("MkCall", "bsc")},
		// three batches of one token (nonces 1..3) and one of another token (nonce 4) on ethereum
		{engine.OpN("MkBatch", "ethereum"), engine.OpN("MkBatch", "ethereum"), engine.OpN("MkBatch", "ethereum"), engine.OpN("MkBatch2", "ethereum")}}
}
func (c *C16) Genesis() hub.Genesis {
	vals := c.Vals
	if c.Keyless {
		vals = c.Vals[:4]
	}
	pw := []int64{10, 10, 0, 0}
	if c.Crowd {
		for len(pw) < len(vals) {
			pw = append(pw, 1)
		}
	}
	g := StdGenesis(vals, pw, []sdk.AccAddress{c.User, c.Stranger}, sdk.NewCoins(sdk.NewInt64Coin("hub", 1_000_000), sdk.NewInt64Coin("eth", 1_000_000)))
	g.Staking[2].Power = 7
	g.Staking[3].Power = 6
	g.Staking[3].Unbonding = true
	if c.Keyless {
		e := c.Vals[4]
		g.Accounts = append(g.Accounts, e.Acc, e.Orch)
		g.Staking = append(g.Staking, hub.ValState{Oper: e.Oper.String(), Bonded: true, Power: 10})
	}
	for _, es := range g.Hub.ExternalStates {
		es.LastOutgoingBatchTxNonce = c.Base
		if c.PerChain {
			for _, dk := range es.DelegateKeys {
				if dk.ValidatorAddress == c.Vals[1].Oper.String() {
					dk.OrchestratorAddress = c.orchOn(1, es.ChainId).String()
				}
			}
		}
	}
	if c.PerChain {
		g.Accounts = append(g.Accounts, c.orchOn(1, "bsc"))
	}
	if c.Superseded {
		g.InitialHeight = 20000 // older than SignedSignerSetTxsWindow: pruning of signer sets is in operation
	}
	return g
}

type c16Ghost struct {
	R map[string]string // chain|hex(storeIndex)|validator -> hex(signature)
	X map[string]string // chain|hex(storeIndex)|validator -> external signer recorded at confirmation time
}

func (g *c16Ghost) Clone() Ghost {
	n := &c16Ghost{R: map[string]string{}, X: map[string]string{}}
	for k, v := range g.R {
		n.R[k] = v
	}
	for k, v := range g.X {
		n.X[k] = v
	}
	return n
}
func (g *c16Ghost) Canon() string {
	var ks []string
	for k, v := range g.R {
		ks = append(ks, k+"="+v[:8])
	}
	sort.Strings(ks)
	return strings.Join(ks, ",")
}
func (c *C16) NewGhost(in *hub.Instance) Ghost { return &c16Ghost{R: map[string]string{}, X: map[string]string{}} }

var c16Scope = []byte("scope-1")

// tx refs: 0 signer set nonce 1, 1 signer set nonce 9 (unknown), 2 batch nonce 1, 3 batch nonce 9 (unknown), 4 contract call (scope,1),
// 5 / 6 batch nonce 2 / 3 of the same token, 7 the batch of the second token (ethereum only)
func (c *C16) Ops(s *HState) []engine.Op {
	var ops []engine.Op
	if c.Crowd {
		// the crowd has confirmed in the seed; A and B may still do so, blocks pass
		for v := 0; v < 2; v++ {
			ops = append(ops, engine.OpN("Confirm", "ethereum", v, 0, 0, 0), engine.OpN("Confirm", "ethereum", v, 1, 2, 0))
		}
		return append(ops, engine.OpN("Next"))
	}
	for _, ch := range c.Chains {
		ops = append(ops, engine.OpN("MkBatch", ch), engine.OpN("MkCall", ch))
		for v := range c.Vals {
			for kind := 0; kind < 2; kind++ {
				for ref := 0; ref < 5; ref++ {
					ops = append(ops, engine.OpN("Confirm", ch, v, kind, ref, 0))
				}
			}
		}
		for ref := 0; ref < 5; ref++ {
			ops = append(ops, engine.OpN("Confirm", ch, 0, 1, ref, 1)) // claims B's external address
		}
		ops = append(ops, engine.OpN("Confirm", ch, 0, 2, 0, 0)) // stranger
		if c.PerChain {
			// B's confirmation sent by the account that is B's orchestrator on the OTHER chain only
			for ref := 0; ref < 5; ref++ {
				ops = append(ops, engine.OpN("Confirm", ch, 1, 3, ref, 0))
			}
		}
		ops = append(ops, engine.OpN("Confirm", ch, 0, 0, 0, 4), engine.OpN("Confirm", ch, 0, 0, 2, 4)) // an empty signature
		// a confirmation in the Minter connector's format (the RLP list [v, r, s] of one signature: 69 bytes): what the
		// queries return is what was submitted, byte for byte
		ops = append(ops, engine.OpN("Confirm", ch, 0, 0, 0, 7), engine.OpN("Confirm", ch, 1, 1, 2, 7))
		// ... and one that is present on the wire with length 0 (it decodes to an empty, non-nil byte string)
		ops = append(ops, engine.OpN("Confirm", ch, 0, 0, 0, 6), engine.OpN("Confirm", ch, 0, 0, 2, 6))
		if c.Keyless {
			// E has no registered external address: it claims the zero address / A's address as signer
			for ref := 0; ref < 5; ref++ {
				ops = append(ops, engine.OpN("Confirm", ch, 4, 0, ref, 3), engine.OpN("Confirm", ch, 4, 0, ref, 5))
			}
		}
		// right tx, wrong chain in the message (confirmation built for the other chain's tx)
		ops = append(ops, engine.OpN("Confirm", ch, 0, 1, 2, 2))
		if ch == "ethereum" {
			ops = append(ops, engine.OpN("MkBatch2", ch))
			for v := 0; v < 2; v++ {
				for ref := 5; ref <= 7; ref++ {
					ops = append(ops, engine.OpN("Confirm", ch, v, 1, ref, 0))
				}
			}
		}
	}
	if c.Rotate {
		ops = append(ops, engine.OpN("Rotate"))
		// x/slashing jails validator B (downtime): it is out of the bonded set from the next block on, its recorded
		// confirmations stay what they are
		ops = append(ops, engine.OpN("JailB"))
	}
	if c.Heights {
		ops = append(ops, engine.OpN("Dep", "ethereum", 600), engine.OpN("Dep", "ethereum", 10_000_000))
	}
	if c.Superseded {
		ops = append(ops, engine.OpN("Shift"), engine.OpN("ObserveSet"))
	}
	ops = append(ops, engine.OpN("Next"))
	return ops
}

func tokenOn(chain string) string {
	if chain == "bsc" {
		return BscHub
	}
	return EthHub
}

func (c *C16) conf(in *hub.Instance, chain string, ref int64, signerExt string, v hub.Validator) (mhubtypes.ExternalTxConfirmation, mhubtypes.OutgoingTx) {
	ctx := in.Ctx()
	ch := mhubtypes.ChainID(chain)
	gid := []byte("defaultgravityid")
	sign := func(otx mhubtypes.OutgoingTx) []byte {
		var cp []byte
		if otx != nil {
			cp = otx.GetCheckpoint(gid)
		} else {
			cp = make([]byte, 32)
		}
		sig, err := mhubtypes.NewEthereumSignature(cp, v.EthKey)
		if err != nil {
			panic(err)
		}
		return sig
	}
	get := func(idx []byte) mhubtypes.OutgoingTx {
		var out mhubtypes.OutgoingTx
		func() {
			defer func() { recover() }() // GetOutgoingTx panics on a missing key (UnmarshalInterface of nil)
			out = in.Hub.GetOutgoingTx(ctx, ch, idx)
		}()
		return out
	}
	switch ref {
	case 0, 1:
		n := uint64(1)
		if ref == 1 {
			n = 9
		}
		otx := get(mhubtypes.MakeSignerSetTxKey(ch, n))
		return &mhubtypes.SignerSetTxConfirmation{SignerSetNonce: n, ExternalSigner: signerExt, Signature: sign(otx)}, otx
	case 7:
		var found *mhubtypes.BatchTx
		in.Hub.IterateOutgoingTxsByType(ctx, ch, mhubtypes.BatchTxPrefixByte, func(_ []byte, o mhubtypes.OutgoingTx) bool {
			if b := o.(*mhubtypes.BatchTx); b.ExternalTokenId == EthEth && found == nil {
				found = b
			}
			return false
		})
		if found == nil {
			return &mhubtypes.BatchTxConfirmation{ExternalTokenId: EthEth, BatchNonce: 8, ExternalSigner: signerExt, Signature: sign(nil)}, nil
		}
		return &mhubtypes.BatchTxConfirmation{ExternalTokenId: EthEth, BatchNonce: found.BatchNonce, ExternalSigner: signerExt, Signature: sign(found)}, found
	case 2, 3, 5, 6:
		n := c.Base + 1
		switch ref {
		case 3:
			n = c.Base + 9
		case 5:
			n = c.Base + 2
		case 6:
			n = c.Base + 3
		}
		otx := get(mhubtypes.MakeBatchTxKey(ch, tokenOn(chain), n))
		return &mhubtypes.BatchTxConfirmation{ExternalTokenId: tokenOn(chain), BatchNonce: n, ExternalSigner: signerExt, Signature: sign(otx)}, otx
	default:
		otx := get(mhubtypes.MakeContractCallTxKey(ch, c16Scope, 1))
		return &mhubtypes.ContractCallTxConfirmation{InvalidationScope: c16Scope, InvalidationNonce: 1, ExternalSigner: signerExt, Signature: sign(otx)}, otx
	}
}

func (c *C16) rawSigs(in *hub.Instance) map[string]string {
	out := map[string]string{}
	for _, kv := range in.Snapshot().Stores[mhubtypes.StoreKey] {
		if len(kv.K) > 0 && kv.K[0] == mhubtypes.ExternalSignatureKey {
			out[fmt.Sprintf("%x", kv.K)] = fmt.Sprintf("%x", kv.V)
		}
	}
	return out
}

func (c *C16) Do(in *hub.Instance, gg Ghost, op engine.Op, st *engine.Step) {
	g := gg.(*c16Ghost)
	switch op.Kind {
	case "Next":
		// the queries are also asked at the block boundary (after the EndBlockers, before the next BeginBlocker)
		if p := in.EndBlock(); BlockFailure(st, p) {
			return
		}
		c.queries(in, g, st)
		if p := in.BeginBlock(5); BlockFailure(st, p) {
			return
		}
	case "Dep":
		// every bonded validator claims a deposit observed at the given external height
		ch := op.S[0]
		n := in.Hub.GetLastObservedEventNonce(in.Ctx(), mhubtypes.ChainID(ch)) + 1
		ev := &mhubtypes.SendToHubEvent{EventNonce: n, ExternalCoinId: tokenOn(ch), Amount: sdk.NewInt(5), Sender: hub.HexAddr("dep"), CosmosReceiver: c.User.String(), ExternalHeight: uint64(op.I[0]) + n, TxHash: fmt.Sprintf("0xc16dep%d", n)}
		for i := range c.Vals {
			if i < len(in.Staking.Vals) && in.Staking.Vals[i].Bonded {
				in.DeliverMsg(hub.EventMsg(c.orchOn(i, ch), ch, ev))
			}
		}
		st.Obs = "dep"
	case "MkBatch":
		ch := op.S[0]
		r := in.DeliverMsg(mhubtypes.NewMsgSendToExternal(mhubtypes.ChainID(ch), c.User, hub.HexAddr("r"), sdk.NewInt64Coin("hub", 1000), sdk.NewInt64Coin("hub", 5)))
		r2 := in.DeliverMsg(&mhubtypes.MsgRequestBatchTx{ChainId: ch, Denom: "hub", Signer: c.User.String()})
		st.Obs = fmt.Sprint(r.OK(), r2.OK())
	case "MkMany":
		// op.I[0] batches of one token: each later transfer pays a higher fee, so each request builds a new batch
		ch := op.S[0]
		n := 0
		for i := int64(0); i < op.I[0]; i++ {
			r := in.DeliverMsg(mhubtypes.NewMsgSendToExternal(mhubtypes.ChainID(ch), c.User, hub.HexAddr("r"), sdk.NewInt64Coin("hub", 1000), sdk.NewInt64Coin("hub", 5+i)))
			r2 := in.DeliverMsg(&mhubtypes.MsgRequestBatchTx{ChainId: ch, Denom: "hub", Signer: c.User.String()})
			if r.OK() && r2.OK() {
				n++
			}
		}
		st.Obs = fmt.Sprint("many", n)
	case "MkBatch2":
		ch := op.S[0]
		r := in.DeliverMsg(mhubtypes.NewMsgSendToExternal(mhubtypes.ChainID(ch), c.User, hub.HexAddr("r"), sdk.NewInt64Coin("eth", 1000), sdk.NewInt64Coin("eth", 5)))
		r2 := in.DeliverMsg(&mhubtypes.MsgRequestBatchTx{ChainId: ch, Denom: "eth", Signer: c.User.String()})
		st.Obs = fmt.Sprint(r.OK(), r2.OK())
	case "MkCall":
		// contract calls have no message entry point; they are created through the keeper API (hooks)
		ch := op.S[0]
		var exists bool
		func() {
			defer func() { recover() }()
			exists = in.Hub.GetOutgoingTx(in.Ctx(), mhubtypes.ChainID(ch), mhubtypes.MakeContractCallTxKey(mhubtypes.ChainID(ch), c16Scope, 1)) != nil
		}()
		if !exists {
			in.Hub.CreateContractCallTx(in.Ctx(), mhubtypes.ChainID(ch), 1, c16Scope, []byte("payload"), nil, nil)
		}
		st.Obs = fmt.Sprint(exists)
	case "Confirm":
		c.confirm(in, g, op, st)
	case "ConfirmCrowd":
		// every validator from the fifth on confirms the transaction (own account)
		for v := 4; v < len(c.Vals); v++ {
			var sub engine.Step
			c.confirm(in, g, engine.OpN("Confirm", op.S[0], v, 0, op.I[0], 0), &sub)
			st.Violations = append(st.Violations, sub.Violations...)
		}
		st.Obs = "crowd"
	case "Shift":
		// a delegation doubles (or halves back) validator A's stake: more than 5% of the normalised power moves
		p := int64(20)
		if in.Staking.Vals[0].Power == 20 {
			p = 10
		}
		in.ValSetPower(0, p)
		st.Obs = fmt.Sprint("power ", p)
	case "ObserveSet":
		// the latest signer set was relayed to ethereum; every bonded validator reports its execution event
		ch := mhubtypes.ChainID("ethereum")
		l := in.Hub.GetLatestSignerSetTx(in.Ctx(), ch)
		if l == nil {
			return
		}
		n := in.Hub.GetLastObservedEventNonce(in.Ctx(), ch) + 1
		ev := &mhubtypes.SignerSetTxExecutedEvent{EventNonce: n, SignerSetTxNonce: l.Nonce, ExternalHeight: 100 + n, Members: l.Signers, TxHash: fmt.Sprintf("0xc16ss%d", n)}
		for i := range c.Vals {
			if i < len(in.Staking.Vals) && in.Staking.Vals[i].Bonded {
				in.DeliverMsg(hub.EventMsg(c.orchOn(i, "ethereum"), "ethereum", ev))
			}
		}
		st.Obs = fmt.Sprint("observe set ", l.Nonce)
	case "JailB":
		if in.Staking.Vals[1].Bonded && !in.Staking.Vals[1].Jailed {
			in.ValJail(1)
		}
		st.Obs = "jailed"
	case "Rotate":
		// validator A registers a new orchestrator and a new external key on ethereum
		v := c.Vals[0]
		seq, _ := in.Acc.GetSequence(in.Ctx(), v.Acc)
		r := in.DeliverMsg(hub.DelegateKeysMsg(in.Cdc, v, "ethereum", hub.User("c16neworch"), hub.EthKey("c16rot"), seq))
		st.Obs = fmt.Sprint(r.OK())
	}
	c.queries(in, g, st)
}

func (c *C16) confirm(in *hub.Instance, g *c16Ghost, op engine.Op, st *engine.Step) {
	chain := op.S[0]
	v, kind, ref, claim := op.I[0], op.I[1], op.I[2], op.I[3]
	val := c.Vals[v]
	signer := val.Acc
	switch kind {
	case 1:
		signer = c.orchOn(int(v), chain)
	case 2:
		signer = c.Stranger
	case 3:
		signer = c.orchOn(int(v), otherChain(chain))
	}
	ext := val.Eth.Hex()
	if claim == 1 {
		ext = c.Vals[1].Eth.Hex()
	}
	if claim == 3 {
		ext = "0x0000000000000000000000000000000000000000"
	}
	if claim == 5 {
		ext = c.Vals[0].Eth.Hex()
	}
	confChain := chain
	if claim == 2 { // confirmation refers to the batch as it exists on the OTHER chain
		if chain == "ethereum" {
			confChain = "bsc"
		} else {
			confChain = "ethereum"
		}
	}
	conf, _ := c.conf(in, confChain, ref, ext, val)
	_, otx := c.conf(in, chain, ref, ext, val)
	if claim == 2 {
		// does a tx with the confirmation's own store index exist on the message's chain?
		otx = nil
		func() {
			defer func() { recover() }()
			otx = in.Hub.GetOutgoingTx(in.Ctx(), mhubtypes.ChainID(chain), conf.GetStoreIndex(mhubtypes.ChainID(chain)))
		}()
	}
	if claim == 7 {
		long := func(sig []byte) []byte { return append([]byte{0xf8, 0x43, 0x1b, 0xa0}, sig...) }
		switch x := conf.(type) {
		case *mhubtypes.SignerSetTxConfirmation:
			x.Signature = long(x.Signature)
		case *mhubtypes.BatchTxConfirmation:
			x.Signature = long(x.Signature)
		}
	}
	if claim == 4 {
		switch x := conf.(type) {
		case *mhubtypes.SignerSetTxConfirmation:
			x.Signature = []byte{}
		case *mhubtypes.BatchTxConfirmation:
			x.Signature = []byte{}
		}
	}
	pre := c.rawSigs(in)
	var r hub.TxResult
	msg := hub.ConfirmMsg(signer, chain, conf)
	if claim == 6 {
		var tag byte
		switch x := conf.(type) {
		case *mhubtypes.SignerSetTxConfirmation:
			x.Signature, tag = nil, 0x1a // field 3, length-delimited
		case *mhubtypes.BatchTxConfirmation:
			x.Signature, tag = nil, 0x22 // field 4
		}
		any, err := mhubtypes.PackConfirmation(conf)
		if err != nil {
			panic(err)
		}
		msg.Confirmation = &codectypes.Any{TypeUrl: any.TypeUrl, Value: append(append([]byte{}, any.Value...), tag, 0x00)}
	}
	r = in.DeliverMsg(msg)
	post := c.rawSigs(in)
	st.Obs = fmt.Sprint(r.OK())
	idx := conf.GetStoreIndex(mhubtypes.ChainID(chain))
	key := fmt.Sprintf("%s|%x|%s", chain, idx, val.Oper.String())
	if !r.OK() {
		st.Count("confirmations_rejected", 1)
		if r.Panic != nil {
			st.Count("confirmation_tx_panics", 1)
		}
		if len(pre) != len(post) {
			st.Violate("C16", "failed_confirmation_changed_store", "SubmitTxConfirmation", "op %s failed but signatures %d -> %d", op, len(pre), len(post))
		}
		return
	}
	st.Count("confirmations_ok", 1)
	if otx == nil {
		st.Violate("C16", "confirmation_recorded_for_unknown_tx", "SubmitTxConfirmation", "op %s: no such outgoing tx on %s", op, chain)
	}
	if kind == 2 {
		st.Violate("C16", "confirmation_recorded_from_unknown_account", "getSignerValidator", "op %s", op)
	}
	if kind == 3 {
		st.Violate("C16", "confirmation_recorded_from_orchestrator_of_another_chain", "getSignerValidator", "op %s: %s is %s's orchestrator on %s only; on %s it is neither a validator nor anybody's orchestrator", op, signer, val.Name, otherChain(chain), chain)
	}
	if !in.Staking.Vals[v].Bonded {
		st.Violate("C16", "confirmation_recorded_from_unbonded_validator", "getSignerValidator", "op %s", op)
	}
	if claim == 3 || claim == 5 {
		st.Violate("C16", "confirmation_recorded_for_validator_without_registered_address", "SubmitTxConfirmation", "op %s: validator %s never registered an external address on %s, yet its confirmation naming signer %s was recorded", op, val.Name, chain, ext)
	}
	if claim == 4 || claim == 6 {
		st.Violate("C16", "empty_signature_recorded_as_confirmation", "SubmitTxConfirmation", "op %s: a confirmation without signature bytes was recorded", op)
	}
	if claim == 1 {
		st.Violate("C16", "confirmation_recorded_with_foreign_signer_address", "SubmitTxConfirmation", "op %s: claimed %s, validator's registered address %s", op, ext, val.Eth.Hex())
	}
	if _, dup := g.R[key]; dup {
		st.Violate("C16", "duplicate_confirmation_recorded", "SubmitTxConfirmation", "op %s: %s already confirmed", op, key)
	}
	g.R[key] = fmt.Sprintf("%x", conf.GetSignature())
	g.X[key] = val.Eth.Hex()
}

func (c *C16) queries(in *hub.Instance, g *c16Ghost, st *engine.Step) {
	ctx := in.Ctx()
	wctx := sdk.WrapSDKContext(ctx)
	// raw store == reference
	raw := c.rawSigs(in)
	want := map[string]string{}
	for k, sig := range g.R {
		p := strings.SplitN(k, "|", 3)
		idx := make([]byte, len(p[1])/2)
		fmt.Sscanf(p[1], "%x", &idx)
		va, _ := sdk.ValAddressFromBech32(p[2])
		want[fmt.Sprintf("%x", mhubtypes.MakeExternalSignatureKey(mhubtypes.ChainID(p[0]), idx, va))] = sig
	}
	if len(raw) != len(want) {
		st.Violate("C16", "signature_store_differs_from_reference", "SetExternalSignature", "store has %d signatures, reference %d", len(raw), len(want))
	} else {
		for k, v := range want {
			if raw[k] != v {
				st.Violate("C16", "signature_store_differs_from_reference", "SetExternalSignature", "key %s", k)
				break
			}
		}
	}
	for _, chain := range c.Chains {
		ch := mhubtypes.ChainID(chain)
		// expected confirmations per tx
		exp := func(idx []byte) map[string]string { // external signer -> sig
			out := map[string]string{}
			for k, sig := range g.R {
				p := strings.SplitN(k, "|", 3)
				if p[0] == chain && p[1] == fmt.Sprintf("%x", idx) {
					out[g.X[k]] = sig
				}
			}
			return out
		}
		cmp := func(what string, got map[string]string, want map[string]string) {
			if len(got) != len(want) {
				st.Violate("C16", "confirmations_query_wrong", what, "chain %s: query returned %d confirmations %v, reference %d", chain, len(got), got, len(want))
				return
			}
			for k, v := range want {
				if got[k] != v {
					// the same signature returned under the address the validator registered LATER (keys re-registered after the
					// confirmation): the (address, signature) pair no longer verifies
					for k2, v2 := range got {
						if v2 == v && want[k2] == "" {
							st.Violate("C16", "confirmation_attributed_to_a_later_registered_key", what, "chain %s: the signature made with %s is returned as a signature of %s", chain, k, k2)
							return
						}
					}
					st.Violate("C16", "confirmations_query_wrong", what, "chain %s: signer %s: got %q want %q", chain, k, got[k], v)
					return
				}
			}
		}
		for _, n := range []uint64{1, 9} {
			res, err := in.Hub.SignerSetTxConfirmations(wctx, &mhubtypes.SignerSetTxConfirmationsRequest{SignerSetNonce: n, ChainId: chain})
			got := map[string]string{}
			if err == nil {
				for _, s := range res.Signatures {
					got[s.ExternalSigner] = fmt.Sprintf("%x", s.Signature)
				}
			}
			cmp("SignerSetTxConfirmations", got, exp(mhubtypes.MakeSignerSetTxKey(ch, n)))
		}
		type bref struct {
			tok string
			n   uint64
		}
		brefs := []bref{{tokenOn(chain), c.Base + 9}}
		in.Hub.IterateOutgoingTxsByType(ctx, ch, mhubtypes.BatchTxPrefixByte, func(_ []byte, o mhubtypes.OutgoingTx) bool {
			b := o.(*mhubtypes.BatchTx)
			brefs = append(brefs, bref{b.ExternalTokenId, b.BatchNonce})
			return false
		})
		for _, br := range brefs {
			res2, err := in.Hub.BatchTxConfirmations(wctx, &mhubtypes.BatchTxConfirmationsRequest{BatchNonce: br.n, ExternalTokenId: br.tok, ChainId: chain})
			got := map[string]string{}
			if err == nil {
				for _, s := range res2.Signatures {
					got[s.ExternalSigner] = fmt.Sprintf("%x", s.Signature)
				}
			}
			cmp("BatchTxConfirmations", got, exp(mhubtypes.MakeBatchTxKey(ch, br.tok, br.n)))
		}
		res3, err := in.Hub.ContractCallTxConfirmations(wctx, &mhubtypes.ContractCallTxConfirmationsRequest{InvalidationScope: c16Scope, InvalidationNonce: 1, ChainId: chain})
		got := map[string]string{}
		if err == nil {
			for _, s := range res3.Signatures {
				got[s.ExternalSigner] = fmt.Sprintf("%x", s.Signature)
			}
		}
		cmp("ContractCallTxConfirmations", got, exp(mhubtypes.MakeContractCallTxKey(ch, c16Scope, 1)))

		// Unsigned* for every bonded validator, asked through its orchestrator address
		for vi, v := range c.Vals {
			if c.Keyless && vi == 4 {
				continue // E has no orchestrator to ask the unsigned lists with
			}
			if !in.Staking.Vals[vi].Bonded {
				continue
			}
			confirmed := func(idx []byte) bool {
				_, ok := g.R[fmt.Sprintf("%s|%x|%s", chain, idx, v.Oper.String())]
				return ok
			}
			var wantSS, wantB, wantC []string
			for _, ss := range in.Hub.GetSignerSetTxs(ctx, ch) {
				if !confirmed(ss.GetStoreIndex(ch)) {
					wantSS = append(wantSS, fmt.Sprint(ss.Nonce))
				}
			}
			in.Hub.IterateOutgoingTxsByType(ctx, ch, mhubtypes.BatchTxPrefixByte, func(_ []byte, o mhubtypes.OutgoingTx) bool {
				if !confirmed(o.GetStoreIndex(ch)) {
					wantB = append(wantB, fmt.Sprint(o.(*mhubtypes.BatchTx).BatchNonce))
				}
				return false
			})
			in.Hub.IterateOutgoingTxsByType(ctx, ch, mhubtypes.ContractCallTxPrefixByte, func(_ []byte, o mhubtypes.OutgoingTx) bool {
				if !confirmed(o.GetStoreIndex(ch)) {
					wantC = append(wantC, fmt.Sprint(o.(*mhubtypes.ContractCallTx).InvalidationNonce))
				}
				return false
			})
			var gotSS, gotB, gotC []string
			if r, err := in.Hub.UnsignedSignerSetTxs(wctx, &mhubtypes.UnsignedSignerSetTxsRequest{Address: c.orchOn(vi, chain).String(), ChainId: chain}); err == nil {
				for _, x := range r.SignerSets {
					gotSS = append(gotSS, fmt.Sprint(x.Nonce))
				}
			} else {
				gotSS = []string{"err:" + err.Error()}
			}
			if r, err := in.Hub.UnsignedBatchTxs(wctx, &mhubtypes.UnsignedBatchTxsRequest{Address: c.orchOn(vi, chain).String(), ChainId: chain}); err == nil {
				for _, x := range r.Batches {
					gotB = append(gotB, fmt.Sprint(x.BatchNonce))
				}
			} else {
				gotB = []string{"err:" + err.Error()}
			}
			if r, err := in.Hub.UnsignedContractCallTxs(wctx, &mhubtypes.UnsignedContractCallTxsRequest{Address: c.orchOn(vi, chain).String(), ChainId: chain}); err == nil {
				for _, x := range r.Calls {
					gotC = append(gotC, fmt.Sprint(x.InvalidationNonce))
				}
			} else {
				gotC = []string{"err:" + err.Error()}
			}
			if c.PerChain && vi == 1 {
				// the account that is B's orchestrator on the other chain only speaks for nobody here
				foreign := c.orchOn(vi, otherChain(chain)).String()
				_, e1 := in.Hub.UnsignedSignerSetTxs(wctx, &mhubtypes.UnsignedSignerSetTxsRequest{Address: foreign, ChainId: chain})
				_, e2 := in.Hub.UnsignedBatchTxs(wctx, &mhubtypes.UnsignedBatchTxsRequest{Address: foreign, ChainId: chain})
				_, e3 := in.Hub.UnsignedContractCallTxs(wctx, &mhubtypes.UnsignedContractCallTxsRequest{Address: foreign, ChainId: chain})
				if e1 == nil || e2 == nil || e3 == nil {
					st.Violate("C16", "unsigned_query_answers_orchestrator_of_another_chain", "getSignerValidator", "chain %s: %s (B's orchestrator on %s only) is answered with a validator's unsigned lists (errors: %v %v %v)", chain, foreign, otherChain(chain), e1, e2, e3)
				}
			}
			for _, p := range []struct {
				n    string
				g, w []string
			}{{"UnsignedSignerSetTxs", gotSS, wantSS}, {"UnsignedBatchTxs", gotB, wantB}, {"UnsignedContractCallTxs", gotC, wantC}} {
				sort.Strings(p.g)
				sort.Strings(p.w)
				if strings.Join(p.g, ",") != strings.Join(p.w, ",") {
					st.Violate("C16", "unsigned_query_wrong", p.n, "chain %s validator %s: got %v want %v", chain, v.Name, p.g, p.w)
				}
			}
		}
	}
	_ = bytes.Equal
}

func init() {
	Register("C16", MultiRunner(func(tier string) ([]MultiCase, []string) {
		cfg := engine.Config{MaxDepth: 3, Deadline: 60 * time.Second, ReplayLeaf: 30}
		if tier == "thorough" {
			cfg = engine.Config{MaxDepth: 5, Deadline: 5 * time.Minute, ReplayLeaf: 200} // per case (ten cases)
		}
		hi := NewC16()
		hi.Base = 253 // the next batches get nonces 254, 255, 256 (a byte boundary of the big-endian nonce in every store index)
		hi.Chains = []string{"ethereum"}
		// operator addresses that are not 20 ordinary bytes: a 32-byte address (the SDK admits up to 255 bytes; module and
		// ADR-028 accounts have 32) and the last address of the 20-byte key space
		hub.LaxAddresses = true
		odd := NewC16()
		odd.Chains = []string{"ethereum"}
		long := hub.NewValidator("A")
		lb := append(bytes.Repeat([]byte{0xa5}, 31), 0x01)
		long.Oper, long.Acc = sdk.ValAddress(lb), sdk.AccAddress(lb)
		odd.Vals[0] = long
		odd.Vals[1] = edgeValidator("B", 0xff, 0xff)
		mny := NewC16()
		mny.Many = true
		mny.Chains = []string{"ethereum"}
		cfgMany := cfg
		cfgMany.MaxDepth = 2
		hts := NewC16()
		hts.Heights = true
		hts.Chains = []string{"ethereum"}
		rot := NewC16()
		rot.Rotate = true
		rot.Chains = []string{"ethereum"}
		pc := NewC16()
		pc.PerChain = true
		crowd := NewC16()
		crowd.Crowd = true
		crowd.Chains = []string{"ethereum"}
		for i := 4; i < 103; i++ {
			crowd.Vals = append(crowd.Vals, hub.NewValidator(fmt.Sprintf("crowd%03d", i)))
		}
		cfgCrowd := cfg
		cfgCrowd.MaxDepth = 2
		sup := NewC16()
		sup.Superseded = true
		sup.Chains = []string{"ethereum"}
		kl := NewC16()
		kl.Keyless = true
		kl.Chains = []string{"ethereum"}
		kl.Vals = append(kl.Vals, hub.NewValidator("E"))
		return []MultiCase{{Name: "fresh chain", Spec: NewC16(), Cfg: cfg}, {Name: "batch nonces 254..256", Spec: hi, Cfg: cfg},
				{Name: "a bonded validator that never registered keys", Spec: kl, Cfg: cfg},
				{Name: "validator B with one orchestrator account per chain", Spec: pc, Cfg: cfg},
				{Name: "validator A registers new keys after confirming", Spec: rot, Cfg: cfg},
				{Name: "observed external heights, a batch with a real timeout", Spec: hts, Cfg: cfg},
				{Name: "a second signer set is published and observed while the first, confirmed one is still inside the signed window", Spec: sup, Cfg: cfg},
				{Name: "101 pending batches of one token", Spec: mny, Cfg: cfgMany},
				{Name: "103 validators: 99 confirmations of one signer set and of one batch, then A's and B's", Spec: crowd, Cfg: cfgCrowd},
				{Name: "operator addresses of 32 bytes (A) and 0xff..ff (B)", Spec: odd, Cfg: cfg}}, []string{
			"validators A, B bonded, C unbonded, D unbonding (all with registered keys); batches: up to three of one token plus one of a second token on ethereum; signers: validator account, orchestrator, stranger; tx refs: existing/unknown signer set, existing/unknown batch, contract call; claimed external signer own/other's; a confirmation built for the other chain's batch; duplicates by repetition",
			"second case: the chain has already issued 253 batch nonces (genesis field LastOutgoingBatchTxNonce), so that the next batches straddle a byte boundary of the nonce inside the signature store keys",
			"third case: validator A has a 32-byte operator address and B the address 0xff..ff; for this check the harness admits the address lengths the SDK admits (1..255 bytes) instead of the application's 20-byte rule, as the repository's own test environment does",
			"contract calls are created through keeper.CreateContractCallTx (no message creates them)",
			"signature validity is not part of C16 as stated (SubmitTxConfirmation ignores ValidateEthereumSignature); honest signatures are used",
			"only-if: a successful confirmation must satisfy the conditions; rejecting one is never a violation",
		}
	}))
}
