// Package hub builds a real mhub2 + oracle keeper pair (with the real auth, bank
// and params keepers underneath) on an in-memory rootmulti store, drives it with
// the block layering a node uses, and snapshots / restores the complete KV state.
package hub

import (
	"bytes"
	"crypto/sha256"
	"encoding/hex"
	"fmt"
	"strings"
	"runtime/debug"
	"sort"
	"sync"
	"time"

	"github.com/cosmos/cosmos-sdk/codec"
	codectypes "github.com/cosmos/cosmos-sdk/codec/types"
	"github.com/cosmos/cosmos-sdk/std"
	"github.com/cosmos/cosmos-sdk/store"
	sdk "github.com/cosmos/cosmos-sdk/types"
	authkeeper "github.com/cosmos/cosmos-sdk/x/auth/keeper"
	authtypes "github.com/cosmos/cosmos-sdk/x/auth/types"
	bankkeeper "github.com/cosmos/cosmos-sdk/x/bank/keeper"
	banktypes "github.com/cosmos/cosmos-sdk/x/bank/types"
	govtypes "github.com/cosmos/cosmos-sdk/x/gov/types"
	"github.com/cosmos/cosmos-sdk/x/params"
	paramskeeper "github.com/cosmos/cosmos-sdk/x/params/keeper"
	paramproposal "github.com/cosmos/cosmos-sdk/x/params/types/proposal"
	paramstypes "github.com/cosmos/cosmos-sdk/x/params/types"
	slashingtypes "github.com/cosmos/cosmos-sdk/x/slashing/types"
	abci "github.com/tendermint/tendermint/abci/types"
	"github.com/tendermint/tendermint/libs/log"
	tmproto "github.com/tendermint/tendermint/proto/tendermint/types"
	dbm "github.com/tendermint/tm-db"

	"github.com/MinterTeam/mhub2/module/x/mhub2"
	mhubkeeper "github.com/MinterTeam/mhub2/module/x/mhub2/keeper"
	mhubtypes "github.com/MinterTeam/mhub2/module/x/mhub2/types"
	"github.com/MinterTeam/mhub2/module/x/oracle"
	oraclekeeper "github.com/MinterTeam/mhub2/module/x/oracle/keeper"
	oracletypes "github.com/MinterTeam/mhub2/module/x/oracle/types"
)

var cfgOnce sync.Once

// LaxAddresses lifts the application's 20-byte address rule to the SDK's own rule (1..255 bytes). The keepers are
// libraries that do not enforce the length themselves; a scenario that wants to see them with other address lengths
// sets this before it builds its genesis.
var LaxAddresses bool

// SetAddressConfig mirrors module/app.SetAddressConfig (account prefix "hub",
// 20-byte addresses) without importing the whole application.
func SetAddressConfig() {
	cfgOnce.Do(func() {
		config := sdk.GetConfig()
		config.SetAddressVerifier(func(bz []byte) error {
			if LaxAddresses && len(bz) > 0 && len(bz) <= 255 {
				return nil // what the SDK itself admits (the repository's own test environment installs no verifier)
			}
			if len(bz) != 20 {
				return fmt.Errorf("invalid address length %d", len(bz))
			}
			return nil
		})
		config.SetBech32PrefixForAccount("hub", "hubpub")
		config.Seal()
	})
}

// StoreNames is the fixed list of persistent stores of an instance.
var StoreNames = []string{mhubtypes.StoreKey, oracletypes.StoreKey, banktypes.StoreKey, authtypes.StoreKey, paramstypes.StoreKey}

// T0 is the block time of height 1.
const T0 = int64(1_700_000_000)

// KV is one key/value pair.
type KV struct{ K, V []byte }

// Snapshot is the complete state of an instance: the flattened view of every
// store (what a reader inside the open block sees), the block clock and the
// staking table.
type Snapshot struct {
	Stores  map[string][]KV
	Height  int64
	Time    int64
	Staking []ValState
	TxCount uint64
}

// Digest is a canonical hash of the snapshot.
func (s *Snapshot) Digest() string {
	h := sha256.New()
	s.hashInto(h, true)
	return hex.EncodeToString(h.Sum(nil)[:16])
}

// StoreDigest hashes the KV contents only (no clock, no staking table).
func (s *Snapshot) StoreDigest(names ...string) string {
	h := sha256.New()
	if len(names) == 0 {
		names = StoreNames
	}
	for _, n := range names {
		fmt.Fprintf(h, "S%s:%d;", n, len(s.Stores[n]))
		for _, kv := range s.Stores[n] {
			fmt.Fprintf(h, "%d:%d:", len(kv.K), len(kv.V))
			h.Write(kv.K)
			h.Write(kv.V)
		}
	}
	return hex.EncodeToString(h.Sum(nil)[:16])
}

func (s *Snapshot) hashInto(h interface{ Write([]byte) (int, error) }, clock bool) {
	for _, n := range StoreNames {
		fmt.Fprintf(h, "S%s:%d;", n, len(s.Stores[n]))
		for _, kv := range s.Stores[n] {
			fmt.Fprintf(h, "%d:%d:", len(kv.K), len(kv.V))
			h.Write(kv.K)
			h.Write(kv.V)
		}
	}
	if clock {
		fmt.Fprintf(h, "H%d T%d X%d;", s.Height, s.Time, s.TxCount)
	}
	for _, v := range s.Staking {
		fmt.Fprintf(h, "V%s:%v:%d:%v:%v:%v:%v:%v:%d:%d;", v.Oper, v.Bonded, v.Power, v.Unbonding, v.Jailed, v.Removed, v.WasJailed, v.HasNext, v.NextPower, v.NextBonded)
	}
}

// Instance is one live hub.
type Instance struct {
	Cdc       codec.Codec
	Registry  codectypes.InterfaceRegistry
	keys      map[string]*sdk.KVStoreKey
	tkey      *sdk.TransientStoreKey
	root      sdk.CommitMultiStore
	dbs       map[string]*dbm.MemDB
	Acc       authkeeper.AccountKeeper
	Bank      bankkeeper.BaseKeeper
	ParamsK   paramskeeper.Keeper
	Hub       mhubkeeper.Keeper
	Oracle    oraclekeeper.Keeper
	Staking   *Staking
	hubH      sdk.Handler
	oracleH   sdk.Handler
	proposalH govtypes.Handler

	Height  int64
	Time    int64
	TxCount uint64

	// GenesisClosed: InitGenesis leaves the chain at the boundary before block 1 (no BeginBlock).
	GenesisClosed bool
	// AnteSeq: bump signer sequences like the ante handler (persisting even when the
	// message fails). Only MsgDelegateKeys reads sequences, so scenarios that do not
	// use it leave this off to avoid splitting states on failed txs.
	AnteSeq bool
	// BeforeCommit, if set, runs after the EndBlockers of a block and before its state is committed
	BeforeCommit func()

	blockMS sdk.CacheMultiStore
	// Events collected since the last ResetEvents (ABCI events of Begin/EndBlock and of successful txs).
	Events []abci.Event
	// Faithful: when true Restore re-creates nothing special; the flag is only
	// informational for scenarios that run whole blocks from a boundary.
	Logger log.Logger
	// ErrLog collects what the modules log at Error level (contained failures: an event whose handler failed or
	// panicked, payouts of an executed batch that could not be made, ...); scenarios clear and read it
	ErrLog []string
}

// errLogger records Error-level messages of the modules in Instance.ErrLog.
type errLogger struct {
	in *Instance
	kv []interface{}
}

func (l errLogger) Debug(string, ...interface{}) {}
func (l errLogger) Info(string, ...interface{})  {}
func (l errLogger) Error(msg string, kv ...interface{}) {
	l.in.ErrLog = append(l.in.ErrLog, strings.TrimSpace(fmt.Sprint(msg, " ", fmt.Sprint(append(append([]interface{}{}, l.kv...), kv...)...))))
}
func (l errLogger) With(kv ...interface{}) log.Logger {
	return errLogger{l.in, append(append([]interface{}{}, l.kv...), kv...)}
}

var maccPerms = map[string][]string{
	authtypes.FeeCollectorName: nil,
	"distribution":             nil,
	"mint":                     {authtypes.Minter},
	"bonded_tokens_pool":       {authtypes.Burner, authtypes.Staking},
	"not_bonded_tokens_pool":   {authtypes.Burner, authtypes.Staking},
	govtypes.ModuleName:        {authtypes.Burner},
	"transfer":                 {authtypes.Minter, authtypes.Burner},
	mhubtypes.ModuleName:       {authtypes.Minter, authtypes.Burner},
}

// ModuleAddr is the mhub2 module account address.
var ModuleAddr = authtypes.NewModuleAddress(mhubtypes.ModuleName)

// New builds the keepers. No genesis is installed; call Restore or InitGenesis next.
func New() *Instance {
	SetAddressConfig()
	in := &Instance{Staking: &Staking{}}
	in.Logger = errLogger{in: in}
	reg := codectypes.NewInterfaceRegistry()
	std.RegisterInterfaces(reg)
	authtypes.RegisterInterfaces(reg)
	banktypes.RegisterInterfaces(reg)
	mhubtypes.RegisterInterfaces(reg)
	oracletypes.RegisterInterfaces(reg)
	in.Registry = reg
	in.Cdc = codec.NewProtoCodec(reg)
	amino := codec.NewLegacyAmino()

	in.keys = map[string]*sdk.KVStoreKey{}
	for _, n := range StoreNames {
		in.keys[n] = sdk.NewKVStoreKey(n)
	}
	in.tkey = sdk.NewTransientStoreKey(paramstypes.TStoreKey)

	in.ParamsK = paramskeeper.NewKeeper(in.Cdc, amino, in.keys[paramstypes.StoreKey], in.tkey)
	in.ParamsK.Subspace(authtypes.ModuleName)
	in.ParamsK.Subspace(banktypes.ModuleName)
	in.ParamsK.Subspace(mhubtypes.DefaultParamspace)
	in.ParamsK.Subspace(oracletypes.ModuleName)
	sub := func(n string) paramstypes.Subspace { s, _ := in.ParamsK.GetSubspace(n); return s }

	in.Acc = authkeeper.NewAccountKeeper(in.Cdc, in.keys[authtypes.StoreKey], sub(authtypes.ModuleName), authtypes.ProtoBaseAccount, maccPerms)
	blocked := map[string]bool{}
	for acc := range maccPerms {
		blocked[authtypes.NewModuleAddress(acc).String()] = acc != "distribution"
	}
	in.Bank = bankkeeper.NewBaseKeeper(in.Cdc, in.keys[banktypes.StoreKey], in.Acc, sub(banktypes.ModuleName), blocked)

	in.Oracle = oraclekeeper.NewKeeper(in.Cdc, in.keys[oracletypes.StoreKey], sub(oracletypes.ModuleName), in.Staking)
	hk := mhubkeeper.NewKeeper(in.Cdc, in.keys[mhubtypes.StoreKey], sub(mhubtypes.DefaultParamspace), in.Acc, in.Bank, nilSlashing{}, in.Oracle, sdk.DefaultPowerReduction)
	in.Hub = hk.SetStakingKeeper(in.Staking)
	in.Oracle = in.Oracle.SetMhub2Keeper(in.Hub)
	in.hubH = mhub2.NewHandler(in.Hub)
	// app.go registers the oracle msg service (RegisterServices), which serves both claim types;
	// the legacy handler only knows MsgPriceClaim. Route like the msg service router does.
	oms := oraclekeeper.NewMsgServerImpl(in.Oracle)
	legacy := oracle.NewHandler(in.Oracle)
	in.oracleH = func(ctx sdk.Context, msg sdk.Msg) (*sdk.Result, error) {
		ctx = ctx.WithEventManager(sdk.NewEventManager())
		switch m := msg.(type) {
		case *oracletypes.MsgHoldersClaim:
			res, err := oms.HoldersClaim(sdk.WrapSDKContext(ctx), m)
			return sdk.WrapServiceResult(ctx, res, err)
		default:
			return legacy(ctx, msg)
		}
	}
	in.proposalH = mhub2.NewProposalsHandler(in.Hub)
	in.mount(nil)
	return in
}

type nilSlashing struct{}

func (nilSlashing) GetValidatorSigningInfo(sdk.Context, sdk.ConsAddress) (slashingtypes.ValidatorSigningInfo, bool) {
	return slashingtypes.ValidatorSigningInfo{}, false
}

// mount creates a fresh rootmulti store over fresh MemDBs pre-populated with kv.
func (in *Instance) mount(kv map[string][]KV) {
	in.dbs = map[string]*dbm.MemDB{}
	root := store.NewCommitMultiStore(dbm.NewMemDB())
	for _, n := range StoreNames {
		db := dbm.NewMemDB()
		// rootmulti wraps a per-store DB in a "s/_/" prefix DB
		pdb := dbm.NewPrefixDB(db, []byte("s/_/"))
		for _, p := range kv[n] {
			if err := pdb.Set(p.K, p.V); err != nil {
				panic(err)
			}
		}
		in.dbs[n] = db
		root.MountStoreWithDB(in.keys[n], sdk.StoreTypeDB, db)
	}
	root.MountStoreWithDB(in.tkey, sdk.StoreTypeTransient, nil)
	if err := root.LoadLatestVersion(); err != nil {
		panic(err)
	}
	in.root = root
	in.blockMS = nil
}

func (in *Instance) header() tmproto.Header {
	return tmproto.Header{Height: in.Height, Time: time.Unix(in.Time, 0).UTC(), ChainID: "verif"}
}

func (in *Instance) ctxOn(ms sdk.MultiStore) sdk.Context {
	return sdk.NewContext(ms, in.header(), false, in.Logger).WithEventManager(sdk.NewEventManager())
}

// Ctx returns a context reading (and writing) the open block's view, or the
// root store if no block is open.
func (in *Instance) Ctx() sdk.Context {
	if in.blockMS != nil {
		return in.ctxOn(in.blockMS)
	}
	return in.ctxOn(in.root)
}

// Genesis describes the initial chain.
type Genesis struct {
	Hub      mhubtypes.GenesisState
	Oracle   oracletypes.GenesisState
	Accounts []sdk.AccAddress // accounts to create (signers must exist, as the ante handler demands)
	Balances map[string]sdk.Coins
	Staking  []ValState
	// InitialHeight: the chain starts above this height (a chain restarted from an export keeps counting: genesis
	// field initial_height); 0 = a new chain
	InitialHeight int64
}

// InitGenesis installs genesis at height 0 (or InitialHeight) and opens the first block (BeginBlocker executed).
func (in *Instance) InitGenesis(g Genesis) {
	in.mount(nil)
	in.Height, in.Time, in.TxCount = g.InitialHeight, T0-5, 0
	in.Staking.Vals = append([]ValState(nil), g.Staking...)
	ctx := in.ctxOn(in.root)
	in.Bank.SetParams(ctx, banktypes.DefaultParams())
	in.Acc.SetParams(ctx, authtypes.DefaultParams())
	for name, perms := range maccPerms {
		in.Acc.SetModuleAccount(ctx, authtypes.NewEmptyModuleAccount(name, perms...))
	}
	for _, a := range g.Accounts {
		if in.Acc.GetAccount(ctx, a) == nil {
			in.Acc.SetAccount(ctx, in.Acc.NewAccountWithAddress(ctx, a))
		}
	}
	// deterministic order
	var addrs []string
	for a := range g.Balances {
		addrs = append(addrs, a)
	}
	sort.Strings(addrs)
	for _, a := range addrs {
		acc, err := sdk.AccAddressFromBech32(a)
		if err != nil {
			panic(err)
		}
		c := g.Balances[a]
		if err := in.Bank.MintCoins(ctx, mhubtypes.ModuleName, c); err != nil {
			panic(err)
		}
		if err := in.Bank.SendCoinsFromModuleToAccount(ctx, mhubtypes.ModuleName, acc, c); err != nil {
			panic(err)
		}
	}
	func() {
		defer func() {
			if r := recover(); r != nil {
				panic(GenesisPanic{Value: r, Stack: string(debug.Stack())})
			}
		}()
		for _, m := range AppOrder("InitGenesis") {
			switch m {
			case "oracle":
				oraclekeeper.InitGenesis(ctx, in.Oracle, g.Oracle)
			case "mhub2":
				mhubkeeper.InitGenesis(ctx, in.Hub, g.Hub)
			}
		}
	}()
	in.Events = nil
	if in.GenesisClosed {
		return
	}
	if p := in.BeginBlock(5); p != nil {
		panic(fmt.Sprintf("BeginBlock(1) after genesis panicked: %v", p.Value))
	}
}

// GenesisPanic is raised when the modules' InitGenesis panics on the scenario's genesis.
type GenesisPanic struct {
	Value interface{}
	Stack string
}

func (g GenesisPanic) Error() string { return fmt.Sprintf("InitGenesis panicked: %v", g.Value) }

// RestoreClosed loads a snapshot taken at a block boundary (no open block).
func (in *Instance) RestoreClosed(s *Snapshot) {
	in.Restore(s)
	in.blockMS = nil
}

// Panic describes a recovered panic.
type Panic struct {
	Value interface{}
	Stack string
	Phase string
}

func (p *Panic) Error() string { return fmt.Sprintf("panic in %s: %v", p.Phase, p.Value) }

func guard(phase string, f func()) (p *Panic) {
	defer func() {
		if r := recover(); r != nil {
			p = &Panic{Value: r, Stack: string(debug.Stack()), Phase: phase}
		}
	}()
	f()
	return nil
}

// BeginBlock opens block Height+1 at Time+dt and runs the module BeginBlockers on a
// block-scoped cache store, exactly as baseapp's deliverState does.
func (in *Instance) BeginBlock(dt int64) *Panic {
	if in.blockMS != nil {
		panic("BeginBlock: block already open")
	}
	in.Height++
	in.Time += dt
	in.blockMS = in.root.CacheMultiStore()
	ctx := in.ctxOn(in.blockMS)
	p := guard("BeginBlocker", func() { mhub2.BeginBlocker(ctx, in.Hub) })
	in.Events = append(in.Events, ctx.EventManager().ABCIEvents()...)
	return p
}

// EndBlock runs the EndBlockers (mhub2 then oracle, the order of app.go) and
// writes the block cache to the root store.
func (in *Instance) EndBlock() *Panic {
	if in.blockMS == nil {
		panic("EndBlock: no open block")
	}
	ctx := in.ctxOn(in.blockMS)
	// the EndBlockers run in the order app.go gives the module manager (staking, mhub2, oracle on the unchanged tree)
	var p *Panic
	for _, m := range AppOrder("EndBlockers") {
		if p != nil {
			break
		}
		switch m {
		case "staking":
			in.Staking.EndBlocker()
		case "mhub2":
			p = guard("mhub2.EndBlocker", func() { mhub2.EndBlocker(ctx, in.Hub) })
		case "oracle":
			p = guard("oracle.EndBlocker", func() { oracle.EndBlocker(ctx, in.Oracle) })
		}
	}
	in.Events = append(in.Events, ctx.EventManager().ABCIEvents()...)
	if p == nil && in.BeforeCommit != nil {
		in.BeforeCommit() // e.g. queries served between EndBlock and Commit (they see the last committed state)
	}
	if p == nil {
		in.blockMS.Write()
	}
	in.blockMS = nil
	return p
}

// Validator lifecycle: app.go registers the mhub2 keeper's staking hooks with x/staking, so the transitions of the
// scripted staking table that x/staking announces through hooks are announced to the keeper under test as well.

func (in *Instance) valAddrs(i int) (sdk.ValAddress, sdk.ConsAddress, sdk.AccAddress) {
	oper, _ := sdk.ValAddressFromBech32(in.Staking.Vals[i].Oper)
	return oper, sdk.ConsAddress(oper), sdk.AccAddress(oper)
}

// ValSetPower: a delegation to validator i changes its stake (x/staking Delegate / Unbond).
func (in *Instance) ValSetPower(i int, power int64) {
	oper, _, del := in.valAddrs(i)
	h := in.Hub.Hooks()
	h.BeforeDelegationSharesModified(in.Ctx(), del, oper)
	in.Staking.Vals[i].Power = power
	h.AfterDelegationModified(in.Ctx(), del, oper)
}

// ValChangeDeferred: a staking transaction of this block changes validator i's stake (bonded: 0 keep, 1 enter the
// bonded set, 2 leave it). Tokens change at once; last power, total power and status at the staking EndBlocker.
func (in *Instance) ValChangeDeferred(i int, power int64, bonded int8) {
	oper, _, del := in.valAddrs(i)
	h := in.Hub.Hooks()
	h.BeforeDelegationSharesModified(in.Ctx(), del, oper)
	v := &in.Staking.Vals[i]
	v.HasNext, v.NextPower, v.NextBonded = true, power, bonded
	h.AfterDelegationModified(in.Ctx(), del, oper)
}

// ValUnbond: validator i leaves the bonded set (x/staking bondedToUnbonding).
func (in *Instance) ValUnbond(i int) {
	oper, cons, _ := in.valAddrs(i)
	was := in.Staking.Vals[i].Bonded
	in.Staking.Vals[i].Bonded = false
	if was {
		in.Staking.Vals[i].Unbonding = true // status Unbonding for the unbonding period
		in.Hub.Hooks().AfterValidatorBeginUnbonding(in.Ctx(), cons, oper)
	}
}

// ValRebond: validator i enters the bonded set (x/staking bondValidator).
func (in *Instance) ValRebond(i int) {
	oper, cons, _ := in.valAddrs(i)
	was := in.Staking.Vals[i].Bonded
	in.Staking.Vals[i].Bonded, in.Staking.Vals[i].Unbonding = true, false
	in.Staking.Vals[i].WasJailed = false // MsgUnjail precedes re-bonding
	if !was {
		in.Hub.Hooks().AfterValidatorBonded(in.Ctx(), cons, oper)
	}
}

// ValJail: x/slashing slashes and jails validator i in its BeginBlocker.
func (in *Instance) ValJail(i int) {
	oper, _, _ := in.valAddrs(i)
	in.Hub.Hooks().BeforeValidatorSlashed(in.Ctx(), oper, sdk.NewDecWithPrec(1, 2))
	in.Staking.Vals[i].Jailed = true
}

// ValLeave: validator i undelegates everything; its unbonding period is over and x/staking deletes the record.
func (in *Instance) ValLeave(i int) {
	v := &in.Staking.Vals[i]
	oper, _ := sdk.ValAddressFromBech32(v.Oper)
	cons := sdk.ConsAddress(oper)
	h := in.Hub.Hooks()
	if v.Bonded {
		h.BeforeValidatorModified(in.Ctx(), oper)
		h.AfterValidatorBeginUnbonding(in.Ctx(), cons, oper)
	}
	v.Bonded, v.Unbonding, v.Jailed, v.Removed = false, false, false, true
	h.AfterValidatorRemoved(in.Ctx(), cons, oper)
}

// ValReturn: the same operator creates the validator again (MsgCreateValidator) and it enters the bonded set.
func (in *Instance) ValReturn(i int, power int64) {
	v := &in.Staking.Vals[i]
	oper, _ := sdk.ValAddressFromBech32(v.Oper)
	cons := sdk.ConsAddress(oper)
	h := in.Hub.Hooks()
	v.Removed, v.Bonded, v.Unbonding, v.Jailed, v.WasJailed, v.Power = false, true, false, false, false, power
	h.AfterValidatorCreated(in.Ctx(), oper)
	h.BeforeDelegationCreated(in.Ctx(), sdk.AccAddress(oper), oper)
	h.AfterDelegationModified(in.Ctx(), sdk.AccAddress(oper), oper)
	h.AfterValidatorBonded(in.Ctx(), cons, oper)
}

// IdleBlocks ends the open block, lets n-1 blocks pass in which nothing happens (height and time advance; an
// empty block changes nothing in these modules when no pool entry, batch or vote is waiting for a height or time
// that lies inside the skipped span - whatever waits is handled by the block that is run next) and opens the
// n-th block after the current one.
func (in *Instance) IdleBlocks(n, dt int64) *Panic {
	if p := in.EndBlock(); p != nil {
		return p
	}
	in.Height += n - 1
	in.Time += (n - 1) * dt
	return in.BeginBlock(dt)
}

// NextBlock = EndBlock of the open block + BeginBlock of the next one dt seconds later.
func (in *Instance) NextBlock(dt int64) *Panic {
	if p := in.EndBlock(); p != nil {
		return p
	}
	return in.BeginBlock(dt)
}

// TxResult is the outcome of DeliverMsg.
type TxResult struct {
	Err    error
	Panic  *Panic // panic inside the handler (confined to the tx, as baseapp does)
	Events []abci.Event
	Data   []byte
	TxHash string // hex sha256(TxBytes), the id mhub2 uses for transaction status
}

func (r TxResult) OK() bool { return r.Err == nil && r.Panic == nil }

type validatable interface{ ValidateBasic() error }

// DeliverMsg runs one single-message transaction inside the open block: stateless
// validation, sequence bump of the signers (ante), handler on a tx-scoped cache
// that is written only on success; handler panics are confined to the tx.
func (in *Instance) DeliverMsg(msg sdk.Msg) TxResult {
	if in.blockMS == nil {
		panic("DeliverMsg: no open block")
	}
	// TxBytes are unique per *successful* tx: the counter is committed only on success, so
	// failed txs (which leave no trace in the module stores) do not split otherwise equal states.
	txBytes := []byte(fmt.Sprintf("verif-tx-%d", in.TxCount+1))
	sum := sha256.Sum256(txBytes)
	res := TxResult{TxHash: fmt.Sprintf("%x", sum)}
	// what a node executes is the message decoded from the transaction bytes: round-trip it
	// through protobuf so that nil/empty distinctions are those of a real transaction
	if bz, err := in.Cdc.MarshalInterface(msg); err == nil {
		var dec sdk.Msg
		if err := in.Cdc.UnmarshalInterface(bz, &dec); err != nil {
			res.Err = fmt.Errorf("tx decode: %w", err)
			return res
		}
		msg = dec
	} else {
		res.Err = fmt.Errorf("tx encode: %w", err)
		return res
	}
	if v, ok := msg.(validatable); ok {
		var err error
		if p := guard("ValidateBasic", func() { err = v.ValidateBasic() }); p != nil {
			res.Err = p
			return res
		}
		if err != nil {
			res.Err = err
			return res
		}
	}
	// ante: signers must exist; sequence is incremented and persists even if the msg fails
	bctx := in.ctxOn(in.blockMS)
	for _, s := range msg.GetSigners() {
		acc := in.Acc.GetAccount(bctx, s)
		if acc == nil {
			res.Err = fmt.Errorf("ante: account %s does not exist", s)
			return res
		}
		if in.AnteSeq {
			_ = acc.SetSequence(acc.GetSequence() + 1)
			in.Acc.SetAccount(bctx, acc)
		}
	}
	txMS := in.blockMS.CacheMultiStore()
	ctx := in.ctxOn(txMS).WithTxBytes(txBytes)
	var r *sdk.Result
	var err error
	res.Panic = guard("DeliverTx", func() {
		rt, _ := msg.(interface{ Route() string })
		switch {
		case rt != nil && rt.Route() == mhubtypes.RouterKey:
			r, err = in.hubH(ctx, msg)
		case rt != nil && rt.Route() == oracletypes.RouterKey:
			r, err = in.oracleH(ctx, msg)
		default:
			err = fmt.Errorf("no route for %T", msg)
		}
	})
	if res.Panic != nil {
		return res
	}
	if err != nil {
		res.Err = err
		return res
	}
	txMS.Write()
	in.TxCount++
	if r != nil {
		res.Events = r.Events
		res.Data = r.Data
		in.Events = append(in.Events, r.Events...)
	}
	return res
}

// DeliverMsgs runs ONE transaction carrying several messages: one TxBytes (so one tx hash for mhub2's status and
// fee records), one tx-scoped cache written only if every message succeeds.
func (in *Instance) DeliverMsgs(msgs ...sdk.Msg) TxResult {
	if in.blockMS == nil {
		panic("DeliverMsgs: no open block")
	}
	txBytes := []byte(fmt.Sprintf("verif-tx-%d", in.TxCount+1))
	sum := sha256.Sum256(txBytes)
	res := TxResult{TxHash: fmt.Sprintf("%x", sum)}
	txMS := in.blockMS.CacheMultiStore()
	ctx := in.ctxOn(txMS).WithTxBytes(txBytes)
	for _, msg := range msgs {
		bz, err := in.Cdc.MarshalInterface(msg)
		if err != nil {
			res.Err = err
			return res
		}
		var dec sdk.Msg
		if err := in.Cdc.UnmarshalInterface(bz, &dec); err != nil {
			res.Err = err
			return res
		}
		if v, ok := dec.(validatable); ok {
			if err := v.ValidateBasic(); err != nil {
				res.Err = err
				return res
			}
		}
		var r *sdk.Result
		res.Panic = guard("DeliverTx", func() { r, err = in.hubH(ctx, dec) })
		if res.Panic != nil {
			return res
		}
		if err != nil {
			res.Err = err
			return res
		}
		if r != nil {
			res.Events = append(res.Events, r.Events...)
			res.Data = r.Data
		}
	}
	txMS.Write()
	in.TxCount++
	in.Events = append(in.Events, res.Events...)
	return res
}

// Proposal executes a passed governance proposal the way x/gov's EndBlocker does
// (cache context, written only if the handler returns nil).
func (in *Instance) Proposal(c govtypes.Content) error {
	if in.blockMS == nil {
		panic("Proposal: no open block")
	}
	in.TxCount++
	ctx := in.ctxOn(in.blockMS).WithTxBytes([]byte(fmt.Sprintf("verif-prop-%d", in.TxCount)))
	cctx, write := ctx.CacheContext()
	if err := in.proposalH(cctx, c); err != nil {
		return err
	}
	write()
	return nil
}

// ParamChange executes a governance ParameterChangeProposal (the params module's own proposal handler, which
// validates the value with the validator the module registered for the key) inside the open block.
func (in *Instance) ParamChange(subspace, key, jsonValue string) error {
	if in.blockMS == nil {
		panic("ParamChange: no open block")
	}
	in.TxCount++
	ctx := in.ctxOn(in.blockMS).WithTxBytes([]byte(fmt.Sprintf("verif-prop-%d", in.TxCount)))
	cctx, write := ctx.CacheContext()
	h := params.NewParamChangeProposalHandler(in.ParamsK)
	if err := h(cctx, paramproposal.NewParameterChangeProposal("t", "d", []paramproposal.ParamChange{paramproposal.NewParamChange(subspace, key, jsonValue)})); err != nil {
		return err
	}
	write()
	return nil
}

// RawGet reads one key of a store through the open block's view.
func (in *Instance) RawGet(store string, key []byte) []byte {
	return in.Ctx().KVStore(in.keys[store]).Get(key)
}

// Snapshot returns the flattened state (reads through the open block cache).
func (in *Instance) Snapshot() *Snapshot {
	var ms sdk.MultiStore = in.root
	if in.blockMS != nil {
		ms = in.blockMS
	}
	s := &Snapshot{Stores: map[string][]KV{}, Height: in.Height, Time: in.Time, TxCount: in.TxCount, Staking: in.Staking.Clone()}
	for _, n := range StoreNames {
		st := ms.GetKVStore(in.keys[n])
		it := st.Iterator(nil, nil)
		var out []KV
		for ; it.Valid(); it.Next() {
			out = append(out, KV{K: append([]byte{}, it.Key()...), V: append([]byte{}, it.Value()...)})
		}
		it.Close()
		s.Stores[n] = out
	}
	return s
}

// Restore loads a snapshot. The block is (re-)opened on a fresh block cache
// WITHOUT re-running BeginBlocker: the snapshot was taken inside that block.
// cachekv is semantically transparent, so every later read sees exactly what
// it saw in the instance the snapshot was taken from.
func (in *Instance) Restore(s *Snapshot) {
	in.mount(s.Stores)
	in.Height, in.Time, in.TxCount = s.Height, s.Time, s.TxCount
	in.Staking.Vals = append([]ValState(nil), s.Staking...)
	in.Staking.Order = nil
	in.blockMS = in.root.CacheMultiStore()
	in.Events = nil
}

// DiffStores lists keys whose value differs between two snapshots (for reports).
func DiffStores(a, b *Snapshot) []string {
	var out []string
	for _, n := range StoreNames {
		am := map[string][]byte{}
		for _, kv := range a.Stores[n] {
			am[string(kv.K)] = kv.V
		}
		for _, kv := range b.Stores[n] {
			if v, ok := am[string(kv.K)]; !ok {
				out = append(out, fmt.Sprintf("%s +%x", n, kv.K))
			} else if !bytes.Equal(v, kv.V) {
				out = append(out, fmt.Sprintf("%s ~%x", n, kv.K))
			}
			delete(am, string(kv.K))
		}
		var rest []string
		for k := range am {
			rest = append(rest, fmt.Sprintf("%s -%x", n, []byte(k)))
		}
		sort.Strings(rest)
		out = append(out, rest...)
	}
	return out
}
