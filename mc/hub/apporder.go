package hub

import (
	"fmt"
	"go/ast"
	"go/parser"
	"go/token"
	"os"
	"strings"
	"sync"
)

// The order in which the application runs its modules is part of the code under test: it is read from
// module/app/app.go of the tree under test (SetOrderBeginBlockers / SetOrderEndBlockers / SetOrderInitGenesis).

var (
	appOrderOnce sync.Once
	appOrder     map[string][]string
)

// AppOrder returns the short module names ("staking", "mhub2", "oracle", ...) in the order given to
// app.mm.SetOrder<kind>, kind being "BeginBlockers", "EndBlockers" or "InitGenesis".
func AppOrder(kind string) []string {
	appOrderOnce.Do(func() {
		repo := os.Getenv("VERIF_REPO")
		if repo == "" {
			repo = "/repo"
		}
		path := repo + "/module/app/app.go"
		f, err := parser.ParseFile(token.NewFileSet(), path, nil, 0)
		if err != nil {
			panic(fmt.Sprintf("cannot read the module order from %s: %v", path, err))
		}
		appOrder = map[string][]string{}
		ast.Inspect(f, func(n ast.Node) bool {
			call, ok := n.(*ast.CallExpr)
			if !ok {
				return true
			}
			sel, ok := call.Fun.(*ast.SelectorExpr)
			if !ok || !strings.HasPrefix(sel.Sel.Name, "SetOrder") {
				return true
			}
			var names []string
			for _, a := range call.Args {
				if s, ok := a.(*ast.SelectorExpr); ok {
					if id, ok := s.X.(*ast.Ident); ok && s.Sel.Name == "ModuleName" {
						names = append(names, strings.TrimSuffix(id.Name, "types"))
					}
				}
			}
			appOrder[strings.TrimPrefix(sel.Sel.Name, "SetOrder")] = names
			return true
		})
		for _, k := range []string{"EndBlockers", "InitGenesis"} {
			pos := map[string]bool{}
			for _, n := range appOrder[k] {
				pos[n] = true
			}
			for _, need := range []string{"staking", "mhub2", "oracle"} {
				if !pos[need] {
					panic(fmt.Sprintf("%s: SetOrder%s does not list module %q (found %v)", path, k, need, appOrder[k]))
				}
			}
		}
	})
	return appOrder[kind]
}
