package scen

import (
	"bytes"
	"encoding/hex"
	"fmt"
	"math/big"
	"sort"
	"strings"
	"time"

	sdk "github.com/cosmos/cosmos-sdk/types"

	"verifmc/engine"
	"verifmc/hub"

	mhubtypes "github.com/MinterTeam/mhub2/module/x/mhub2/types"
)

// C14: votes aggregate only on identical events. Exhaustive grid: for every event type a base
// event and per-field alternatives; ALL pairs of variants (plus constructed boundary-shift and
// cross-type pairs). For every pair with equal Hash() the effect of applying each of the two
// events with the real ExternalEventProcessor.Handle to the same pre-states is MEASURED; equal hash
// with different effect (or different type) is a violation, identified by (type, differing fields).

type c14Variant struct {
	Name  string // which field(s) differ from the base ("" = base)
	Chain string
	Ev    mhubtypes.ExternalEvent
}

func pow2(n uint) sdk.Int { return sdk.NewIntFromBigInt(new(big.Int).Lsh(big.NewInt(1), n)) }

func big2(hexs string) sdk.Int {
	b, _ := new(big.Int).SetString(hexs, 16)
	return sdk.NewIntFromBigInt(b)
}

func (c *C14) variants() map[string][]c14Variant {
	u1, u2 := hub.User("u1").String(), hub.User("u2").String()
	s1, s2 := hub.HexAddr("s1"), hub.HexAddr("s2")
	r1, r2 := hub.HexAddr("r1"), hub.HexAddr("r2")
	out := map[string][]c14Variant{}
	// ---- SendToHubEvent (chain minter so that ids "1"/"12" are admissible)
	sth := func(mod func(e *mhubtypes.SendToHubEvent)) *mhubtypes.SendToHubEvent {
		e := &mhubtypes.SendToHubEvent{EventNonce: 7, ExternalCoinId: "1", Amount: sdk.NewInt(0x3201), Sender: s1[2:], CosmosReceiver: u1, ExternalHeight: 100, TxHash: "0xaa"}
		mod(e)
		return e
	}
	out["SendToHubEvent"] = []c14Variant{
		{"", "minter", sth(func(e *mhubtypes.SendToHubEvent) {})},
		{"nonce", "minter", sth(func(e *mhubtypes.SendToHubEvent) { e.EventNonce = 8 })},
		{"asset", "minter", sth(func(e *mhubtypes.SendToHubEvent) { e.ExternalCoinId = "12" })},
		{"amount", "minter", sth(func(e *mhubtypes.SendToHubEvent) { e.Amount = sdk.NewInt(0x3202) })},
		{"asset+amount(shift)", "minter", sth(func(e *mhubtypes.SendToHubEvent) { e.ExternalCoinId = "12"; e.Amount = sdk.NewInt(0x01) })},
		{"sender", "minter", sth(func(e *mhubtypes.SendToHubEvent) { e.Sender = s2[2:] })},
		{"sender(0x-prefixed)", "minter", sth(func(e *mhubtypes.SendToHubEvent) { e.Sender = s1 })},
		{"sender(0x-prefixed,other)", "minter", sth(func(e *mhubtypes.SendToHubEvent) { e.Sender = s2 })},
		{"recipient", "minter", sth(func(e *mhubtypes.SendToHubEvent) { e.CosmosReceiver = u2 })},
		{"height", "minter", sth(func(e *mhubtypes.SendToHubEvent) { e.ExternalHeight = 101 })},
		{"height(2^64-100)", "minter", sth(func(e *mhubtypes.SendToHubEvent) { e.ExternalHeight = ^uint64(0) - 99 })}, // the two's complement mirror of the base height 100
		{"height(+2^32)", "minter", sth(func(e *mhubtypes.SendToHubEvent) { e.ExternalHeight = 100 + 1<<32 })},
		{"height(+2^63)", "minter", sth(func(e *mhubtypes.SendToHubEvent) { e.ExternalHeight = 100 + 1<<63 })},
		{"txhash", "minter", sth(func(e *mhubtypes.SendToHubEvent) { e.TxHash = "0xbb" })},
		// a hash of the usual length, and the same hash with something after it (no Validate bounds the length)
		{"txhash(66 characters)", "minter", sth(func(e *mhubtypes.SendToHubEvent) { e.TxHash = "0x" + strings.Repeat("ab", 32) })},
		{"txhash(66 characters, then 00)", "minter", sth(func(e *mhubtypes.SendToHubEvent) { e.TxHash = "0x" + strings.Repeat("ab", 32) + "00" })},
		// the value nothing and the text "0" (= the byte 48): amount 0 / 48
		{"amount(zero)", "minter", sth(func(e *mhubtypes.SendToHubEvent) { e.Amount = sdk.NewInt(0) })},
		{"amount(48)", "minter", sth(func(e *mhubtypes.SendToHubEvent) { e.Amount = sdk.NewInt(48) })},
		{"txhash(empty)", "minter", sth(func(e *mhubtypes.SendToHubEvent) { e.TxHash = "" })},
		{"txhash(\"0\")", "minter", sth(func(e *mhubtypes.SendToHubEvent) { e.TxHash = "0" })},
		// differences confined to the high bits of an amount (a fixed-width encoding would drop them)
		{"amount(+2^64)", "minter", sth(func(e *mhubtypes.SendToHubEvent) { e.Amount = e.Amount.Add(pow2(64)) })},
		{"amount(+2^128)", "minter", sth(func(e *mhubtypes.SendToHubEvent) { e.Amount = e.Amount.Add(pow2(128)) })},
		{"amount(+2^192)", "minter", sth(func(e *mhubtypes.SendToHubEvent) { e.Amount = e.Amount.Add(pow2(192)) })},
		// other spellings of the same 20 bytes: the hub acts on the reported string, not on the decoded bytes
		{"sender(upper-case hex)", "minter", sth(func(e *mhubtypes.SendToHubEvent) { e.Sender = strings.ToUpper(s1[2:]) })},
		{"sender(0X-prefixed)", "minter", sth(func(e *mhubtypes.SendToHubEvent) { e.Sender = "0X" + s1[2:] })},
		{"sender(0x-prefixed,upper-case)", "minter", sth(func(e *mhubtypes.SendToHubEvent) { e.Sender = "0x" + strings.ToUpper(s1[2:]) })},
	}
	// ---- TransferToChainEvent
	ttc := func(mod func(e *mhubtypes.TransferToChainEvent)) *mhubtypes.TransferToChainEvent {
		e := &mhubtypes.TransferToChainEvent{EventNonce: 7, ExternalCoinId: "1", Amount: sdk.NewInt(0x3201 * 1000), Fee: sdk.NewInt(10), Sender: s1[2:], ReceiverChainId: "ethereum", ExternalReceiver: r1, ExternalHeight: 100, TxHash: "0xaa"}
		mod(e)
		return e
	}
	out["TransferToChainEvent"] = []c14Variant{
		{"", "minter", ttc(func(e *mhubtypes.TransferToChainEvent) {})},
		{"nonce", "minter", ttc(func(e *mhubtypes.TransferToChainEvent) { e.EventNonce = 8 })},
		{"asset", "minter", ttc(func(e *mhubtypes.TransferToChainEvent) { e.ExternalCoinId = "12" })},
		{"amount", "minter", ttc(func(e *mhubtypes.TransferToChainEvent) { e.Amount = sdk.NewInt(0x3202 * 1000) })},
		{"fee", "minter", ttc(func(e *mhubtypes.TransferToChainEvent) { e.Fee = sdk.NewInt(11) })},
		{"fee(zero)", "minter", ttc(func(e *mhubtypes.TransferToChainEvent) { e.Fee = sdk.NewInt(0) })},
		{"fee(absent on the wire)", "minter", ttc(func(e *mhubtypes.TransferToChainEvent) { e.Fee = sdk.Int{} })},
		{"sender", "minter", ttc(func(e *mhubtypes.TransferToChainEvent) { e.Sender = s2[2:] })},
		{"sender(0x-prefixed)", "minter", ttc(func(e *mhubtypes.TransferToChainEvent) { e.Sender = s1 })},
		{"sender(0x-prefixed,other)", "minter", ttc(func(e *mhubtypes.TransferToChainEvent) { e.Sender = s2 })},
		{"recipient", "minter", ttc(func(e *mhubtypes.TransferToChainEvent) { e.ExternalReceiver = r2 })},
		{"destination", "minter", ttc(func(e *mhubtypes.TransferToChainEvent) { e.ReceiverChainId = "bsc" })},
		{"destination(hub)", "minter", ttc(func(e *mhubtypes.TransferToChainEvent) {
			e.ReceiverChainId = "hub"
			e.ExternalReceiver = "0x" + hex.EncodeToString(hub.User("u1").Bytes())
		})},
		{"height", "minter", ttc(func(e *mhubtypes.TransferToChainEvent) { e.ExternalHeight = 101 })},
		{"height(2^64-100)", "minter", ttc(func(e *mhubtypes.TransferToChainEvent) { e.ExternalHeight = ^uint64(0) - 99 })}, // the two's complement mirror of the base height 100
		{"height(+2^32)", "minter", ttc(func(e *mhubtypes.TransferToChainEvent) { e.ExternalHeight = 100 + 1<<32 })},
		{"height(+2^63)", "minter", ttc(func(e *mhubtypes.TransferToChainEvent) { e.ExternalHeight = 100 + 1<<63 })},
		{"txhash", "minter", ttc(func(e *mhubtypes.TransferToChainEvent) { e.TxHash = "0xbb" })},
		// a hash of the usual length, and the same hash with something after it (no Validate bounds the length)
		{"txhash(66 characters)", "minter", ttc(func(e *mhubtypes.TransferToChainEvent) { e.TxHash = "0x" + strings.Repeat("ab", 32) })},
		{"txhash(66 characters, then 00)", "minter", ttc(func(e *mhubtypes.TransferToChainEvent) { e.TxHash = "0x" + strings.Repeat("ab", 32) + "00" })},
		// the mirror value of the fee (nothing in Validate refuses a negative fee)
		{"fee(negative mirror)", "minter", ttc(func(e *mhubtypes.TransferToChainEvent) { e.Fee = e.Fee.Neg() })},
		{"amount(+2^64)", "minter", ttc(func(e *mhubtypes.TransferToChainEvent) { e.Amount = e.Amount.Add(pow2(64)) })},
		{"amount(+2^128)", "minter", ttc(func(e *mhubtypes.TransferToChainEvent) { e.Amount = e.Amount.Add(pow2(128)) })},
		{"amount+fee(+2^64)", "minter", ttc(func(e *mhubtypes.TransferToChainEvent) { e.Amount = e.Amount.Add(pow2(65)); e.Fee = e.Fee.Add(pow2(64)) })},
		{"amount(+2^65)", "minter", ttc(func(e *mhubtypes.TransferToChainEvent) { e.Amount = e.Amount.Add(pow2(65)) })},
		{"sender(upper-case hex)", "minter", ttc(func(e *mhubtypes.TransferToChainEvent) { e.Sender = strings.ToUpper(s1[2:]) })},
		{"sender(0X-prefixed)", "minter", ttc(func(e *mhubtypes.TransferToChainEvent) { e.Sender = "0X" + s1[2:] })},
		{"recipient(upper-case hex)", "minter", ttc(func(e *mhubtypes.TransferToChainEvent) { e.ExternalReceiver = "0x" + strings.ToUpper(r1[2:]) })},
		{"recipient(0X-prefixed)", "minter", ttc(func(e *mhubtypes.TransferToChainEvent) { e.ExternalReceiver = "0X" + r1[2:] })},
		{"recipient(no prefix)", "minter", ttc(func(e *mhubtypes.TransferToChainEvent) { e.ExternalReceiver = r1[2:] })},
		{"destination(hub),recipient(no prefix)", "minter", ttc(func(e *mhubtypes.TransferToChainEvent) {
			e.ReceiverChainId = "hub"
			e.ExternalReceiver = hex.EncodeToString(hub.User("u1").Bytes())
		})},
		{"destination(hub),recipient(0X-prefixed)", "minter", ttc(func(e *mhubtypes.TransferToChainEvent) {
			e.ReceiverChainId = "hub"
			e.ExternalReceiver = "0X" + hex.EncodeToString(hub.User("u1").Bytes())
		})},
	}
	// ---- BatchExecutedEvent (ethereum: batch 1 of EthHub pending in the pre-state; also nonce 2)
	bee := func(mod func(e *mhubtypes.BatchExecutedEvent)) *mhubtypes.BatchExecutedEvent {
		e := &mhubtypes.BatchExecutedEvent{ExternalCoinId: EthHub, EventNonce: 7, ExternalHeight: 100, BatchNonce: 1, TxHash: "0xaa", FeePaid: sdk.NewInt(1_000_000), FeePayer: r1}
		mod(e)
		return e
	}
	out["BatchExecutedEvent"] = []c14Variant{
		{"", "ethereum", bee(func(e *mhubtypes.BatchExecutedEvent) {})},
		{"nonce", "ethereum", bee(func(e *mhubtypes.BatchExecutedEvent) { e.EventNonce = 8 })},
		{"asset", "ethereum", bee(func(e *mhubtypes.BatchExecutedEvent) { e.ExternalCoinId = EthEth })},
		{"batchnonce", "ethereum", bee(func(e *mhubtypes.BatchExecutedEvent) { e.BatchNonce = 2 })},
		{"height", "ethereum", bee(func(e *mhubtypes.BatchExecutedEvent) { e.ExternalHeight = 101 })},
		{"height(2^64-100)", "ethereum", bee(func(e *mhubtypes.BatchExecutedEvent) { e.ExternalHeight = ^uint64(0) - 99 })}, // the two's complement mirror of the base height 100
		{"height(+2^32)", "ethereum", bee(func(e *mhubtypes.BatchExecutedEvent) { e.ExternalHeight = 100 + 1<<32 })},
		{"height(+2^63)", "ethereum", bee(func(e *mhubtypes.BatchExecutedEvent) { e.ExternalHeight = 100 + 1<<63 })},
		{"txhash", "ethereum", bee(func(e *mhubtypes.BatchExecutedEvent) { e.TxHash = "0xbb" })},
		// a hash of the usual length, and the same hash with something after it (no Validate bounds the length)
		{"txhash(66 characters)", "ethereum", bee(func(e *mhubtypes.BatchExecutedEvent) { e.TxHash = "0x" + strings.Repeat("ab", 32) })},
		{"txhash(66 characters, then 00)", "ethereum", bee(func(e *mhubtypes.BatchExecutedEvent) { e.TxHash = "0x" + strings.Repeat("ab", 32) + "00" })},
		{"feepaid", "ethereum", bee(func(e *mhubtypes.BatchExecutedEvent) { e.FeePaid = sdk.NewInt(5_000_000) })},
		{"feepayer", "ethereum", bee(func(e *mhubtypes.BatchExecutedEvent) { e.FeePayer = r2 })},
		{"feepaid(zero)", "ethereum", bee(func(e *mhubtypes.BatchExecutedEvent) { e.FeePaid = sdk.NewInt(0) })},
		{"feepaid(absent on the wire)", "ethereum", bee(func(e *mhubtypes.BatchExecutedEvent) { e.FeePaid = sdk.Int{} })},
		// optional fields shifted across their boundary: fee 31000 / no payer  vs  no fee / payer "31000"
		{"feepaid 31000, empty feepayer", "ethereum", bee(func(e *mhubtypes.BatchExecutedEvent) { e.FeePaid = sdk.NewInt(31000); e.FeePayer = "" })},
		{"feepaid absent, feepayer \"31000\"", "ethereum", bee(func(e *mhubtypes.BatchExecutedEvent) { e.FeePaid = sdk.Int{}; e.FeePayer = "31000" })},
		{"txhash(empty)", "ethereum", bee(func(e *mhubtypes.BatchExecutedEvent) { e.TxHash = "" })},
		{"txhash(\"0\")", "ethereum", bee(func(e *mhubtypes.BatchExecutedEvent) { e.TxHash = "0" })},
		{"feepayer(empty)", "ethereum", bee(func(e *mhubtypes.BatchExecutedEvent) { e.FeePayer = "" })},
		{"feepayer(\"0\")", "ethereum", bee(func(e *mhubtypes.BatchExecutedEvent) { e.FeePayer = "0" })},
		{"feepaid(negative mirror)", "ethereum", bee(func(e *mhubtypes.BatchExecutedEvent) { e.FeePaid = e.FeePaid.Neg() })},
		{"feepaid(+2^64)", "ethereum", bee(func(e *mhubtypes.BatchExecutedEvent) { e.FeePaid = e.FeePaid.Add(pow2(64)) })},
		{"feepayer(upper-case hex)", "ethereum", bee(func(e *mhubtypes.BatchExecutedEvent) { e.FeePayer = "0x" + strings.ToUpper(r1[2:]) })},
		{"feepayer(0X-prefixed)", "ethereum", bee(func(e *mhubtypes.BatchExecutedEvent) { e.FeePayer = "0X" + r1[2:] })},
		{"feepayer(no prefix)", "ethereum", bee(func(e *mhubtypes.BatchExecutedEvent) { e.FeePayer = r1[2:] })},
		{"asset(upper-case hex)", "ethereum", bee(func(e *mhubtypes.BatchExecutedEvent) { e.ExternalCoinId = "0x" + strings.ToUpper(EthHub[2:]) })},
		{"asset(lower-case hex)", "ethereum", bee(func(e *mhubtypes.BatchExecutedEvent) { e.ExternalCoinId = strings.ToLower(EthHub) })},
	}
	// ---- ContractCallExecutedEvent
	cce := func(mod func(e *mhubtypes.ContractCallExecutedEvent)) *mhubtypes.ContractCallExecutedEvent {
		e := &mhubtypes.ContractCallExecutedEvent{EventNonce: 7, InvalidationScope: []byte("ab"), InvalidationNonce: 1, ExternalHeight: 100, TxHash: "0xaa"}
		mod(e)
		return e
	}
	out["ContractCallExecutedEvent"] = []c14Variant{
		{"", "ethereum", cce(func(e *mhubtypes.ContractCallExecutedEvent) {})},
		{"nonce", "ethereum", cce(func(e *mhubtypes.ContractCallExecutedEvent) { e.EventNonce = 8 })},
		{"scope", "ethereum", cce(func(e *mhubtypes.ContractCallExecutedEvent) { e.InvalidationScope = []byte("ac") })},
		{"invalidationnonce", "ethereum", cce(func(e *mhubtypes.ContractCallExecutedEvent) { e.InvalidationNonce = 2 })},
		{"height", "ethereum", cce(func(e *mhubtypes.ContractCallExecutedEvent) { e.ExternalHeight = 101 })},
		{"height(2^64-100)", "ethereum", cce(func(e *mhubtypes.ContractCallExecutedEvent) { e.ExternalHeight = ^uint64(0) - 99 })}, // the two's complement mirror of the base height 100
		{"height(+2^32)", "ethereum", cce(func(e *mhubtypes.ContractCallExecutedEvent) { e.ExternalHeight = 100 + 1<<32 })},
		{"height(+2^63)", "ethereum", cce(func(e *mhubtypes.ContractCallExecutedEvent) { e.ExternalHeight = 100 + 1<<63 })},
		{"txhash", "ethereum", cce(func(e *mhubtypes.ContractCallExecutedEvent) { e.TxHash = "0xbb" })},
		// a hash of the usual length, and the same hash with something after it (no Validate bounds the length)
		{"txhash(66 characters)", "ethereum", cce(func(e *mhubtypes.ContractCallExecutedEvent) { e.TxHash = "0x" + strings.Repeat("ab", 32) })},
		{"txhash(66 characters, then 00)", "ethereum", cce(func(e *mhubtypes.ContractCallExecutedEvent) { e.TxHash = "0x" + strings.Repeat("ab", 32) + "00" })},
	}
	// ---- SignerSetTxExecutedEvent
	m1 := []*mhubtypes.ExternalSigner{{Power: 100, ExternalAddress: r1}, {Power: 50, ExternalAddress: r2}}
	m2 := []*mhubtypes.ExternalSigner{{Power: 100, ExternalAddress: r1}, {Power: 51, ExternalAddress: r2}}
	m3 := []*mhubtypes.ExternalSigner{{Power: 100, ExternalAddress: r1}}
	r3 := hub.HexAddr("r3")
	// lists with repeated members (admissible: Validate checks each member only) and a reordering
	m4 := []*mhubtypes.ExternalSigner{{Power: 100, ExternalAddress: r1}, {Power: 50, ExternalAddress: r2}, {Power: 50, ExternalAddress: r2}}
	m5 := []*mhubtypes.ExternalSigner{{Power: 100, ExternalAddress: r1}, {Power: 50, ExternalAddress: r3}, {Power: 50, ExternalAddress: r3}}
	m6 := []*mhubtypes.ExternalSigner{{Power: 100, ExternalAddress: r1}, {Power: 100, ExternalAddress: r1}, {Power: 100, ExternalAddress: r1}}
	m7 := []*mhubtypes.ExternalSigner{{Power: 50, ExternalAddress: r2}, {Power: 100, ExternalAddress: r1}}
	// three members whose normalised powers add up to 2^32, and the list that results when the last byte of every power
	// is read as the first byte of the next member's address (a members hash that writes powers without fixed width
	// cannot tell the two apart)
	const aA, aB, aC = "0x1111111111111111111111111111111111111111", "0xb0b2222222222222222222222222222222222222", "0xc0c3333333333333333333333333333333333333"
	const pA, pB, pC = uint64(0x61234567), uint64(0x57654321), uint64(0x47777778)
	m8 := []*mhubtypes.ExternalSigner{{Power: pA, ExternalAddress: aA}, {Power: pB, ExternalAddress: aB}, {Power: pC, ExternalAddress: aC}}
	m9 := []*mhubtypes.ExternalSigner{{Power: pA<<8 | 0xb0, ExternalAddress: aA}, {Power: (pB&0xffffff)<<8 | 0xc0, ExternalAddress: "0x" + aB[4:] + "57"}, {Power: pC & 0xffffff, ExternalAddress: "0x" + aC[4:] + "47"}}
	sse := func(mod func(e *mhubtypes.SignerSetTxExecutedEvent)) *mhubtypes.SignerSetTxExecutedEvent {
		e := &mhubtypes.SignerSetTxExecutedEvent{EventNonce: 7, SignerSetTxNonce: 1, ExternalHeight: 100, Members: m1, TxHash: "0xaa"}
		mod(e)
		return e
	}
	out["SignerSetTxExecutedEvent"] = []c14Variant{
		{"", "ethereum", sse(func(e *mhubtypes.SignerSetTxExecutedEvent) {})},
		{"nonce", "ethereum", sse(func(e *mhubtypes.SignerSetTxExecutedEvent) { e.EventNonce = 8 })},
		{"signersetnonce", "ethereum", sse(func(e *mhubtypes.SignerSetTxExecutedEvent) { e.SignerSetTxNonce = 2 })},
		{"height", "ethereum", sse(func(e *mhubtypes.SignerSetTxExecutedEvent) { e.ExternalHeight = 101 })},
		{"height(2^64-100)", "ethereum", sse(func(e *mhubtypes.SignerSetTxExecutedEvent) { e.ExternalHeight = ^uint64(0) - 99 })}, // the two's complement mirror of the base height 100
		{"height(+2^32)", "ethereum", sse(func(e *mhubtypes.SignerSetTxExecutedEvent) { e.ExternalHeight = 100 + 1<<32 })},
		{"height(+2^63)", "ethereum", sse(func(e *mhubtypes.SignerSetTxExecutedEvent) { e.ExternalHeight = 100 + 1<<63 })},
		{"members(power)", "ethereum", sse(func(e *mhubtypes.SignerSetTxExecutedEvent) { e.Members = m2 })},
		{"members(count)", "ethereum", sse(func(e *mhubtypes.SignerSetTxExecutedEvent) { e.Members = m3 })},
		{"members(one repeated)", "ethereum", sse(func(e *mhubtypes.SignerSetTxExecutedEvent) { e.Members = m4 })},
		{"members(another repeated)", "ethereum", sse(func(e *mhubtypes.SignerSetTxExecutedEvent) { e.Members = m5 })},
		{"members(same thrice)", "ethereum", sse(func(e *mhubtypes.SignerSetTxExecutedEvent) { e.Members = m6 })},
		{"members(reordered)", "ethereum", sse(func(e *mhubtypes.SignerSetTxExecutedEvent) { e.Members = m7 })},
		{"members(three, powers adding up to 2^32)", "ethereum", sse(func(e *mhubtypes.SignerSetTxExecutedEvent) { e.Members = m8 })},
		{"members(the same bytes cut one byte later at every member boundary)", "ethereum", sse(func(e *mhubtypes.SignerSetTxExecutedEvent) { e.Members = m9 })},
		{"txhash", "ethereum", sse(func(e *mhubtypes.SignerSetTxExecutedEvent) { e.TxHash = "0xbb" })},
		// a hash of the usual length, and the same hash with something after it (no Validate bounds the length)
		{"txhash(66 characters)", "ethereum", sse(func(e *mhubtypes.SignerSetTxExecutedEvent) { e.TxHash = "0x" + strings.Repeat("ab", 32) })},
		{"txhash(66 characters, then 00)", "ethereum", sse(func(e *mhubtypes.SignerSetTxExecutedEvent) { e.TxHash = "0x" + strings.Repeat("ab", 32) + "00" })},
		{"members(power+2^32)", "ethereum", sse(func(e *mhubtypes.SignerSetTxExecutedEvent) {
			e.Members = []*mhubtypes.ExternalSigner{{Power: 100 + 1<<32, ExternalAddress: r1}, {Power: 50, ExternalAddress: r2}}
		})},
		// (the letter case of a member address is not varied: the member list is identified by its 20-byte addresses,
		// exactly as the contract's checkpoint does, and the spelling of a member has no effect beyond the stored text)
	}
	// the spelling / high-bit variants are kept only where the event type's own Validate admits them
	for typ, l := range out {
		var keep []c14Variant
		for _, v := range l {
			if strings.Contains(v.Name, "case") || strings.Contains(v.Name, "prefix") || strings.Contains(v.Name, "+2^") || strings.Contains(v.Name, "negative") || strings.Contains(v.Name, "empty") || strings.Contains(v.Name, "\"0\"") || strings.Contains(v.Name, "zero") || strings.Contains(v.Name, "(48)") {
				if err := v.Ev.Validate(mhubtypes.ChainID(v.Chain)); err != nil {
					c.inadmissible = append(c.inadmissible, typ+"."+v.Name)
					continue
				}
			}
			keep = append(keep, v)
		}
		out[typ] = keep
	}
	sort.Strings(c.inadmissible)
	return out
}

// crossType builds a SendToHubEvent / TransferToChainEvent pair of the same nonce whose
// unframed hash inputs coincide (variable-length fields shifted across field and type boundaries).
func (c *C14) crossType() (a, b c14Variant) {
	recv := strings.Repeat("4", 3) + strings.Repeat("5", 20) + strings.Repeat("6", 17) // 40 hex digits, valid address text
	chain := "bsc"
	tail := recv + chain // 43 ASCII bytes = 3 (amount tail) + 20 (sender) + 20 (receiver)
	amtT := []byte{0x01}
	amtS := append(append([]byte{}, amtT...), tail[:3]...)
	sender := hex.EncodeToString([]byte(tail[3:23]))
	rcv := sdk.AccAddress([]byte(tail[23:43]))
	s := &mhubtypes.SendToHubEvent{EventNonce: 7, ExternalCoinId: "1", Amount: sdk.NewIntFromBigInt(new(big.Int).SetBytes(amtS)), Sender: sender, CosmosReceiver: rcv.String(), ExternalHeight: 100, TxHash: "0xaa"}
	t := &mhubtypes.TransferToChainEvent{EventNonce: 7, ExternalCoinId: "1", Amount: sdk.NewIntFromBigInt(new(big.Int).SetBytes(amtT)), Fee: sdk.NewInt(0), Sender: hub.HexAddr("s1"), ReceiverChainId: chain, ExternalReceiver: recv, ExternalHeight: 100, TxHash: "0xaa"}
	return c14Variant{"", "minter", s}, c14Variant{"type(shifted fields)", "minter", t}
}

// frameWrap builds, for a hypothetical length frame of k bytes (big or little endian, i.e. lengths taken
// modulo 2^(8k)), two field tuples (a, mid..., c1) and (a2, mid2..., c2) whose framed concatenations are
// byte-identical although every field differs: a2 = a ++ [frames and contents of mid, frame of c1] ++ pad has
// length |a| + 2^(8k), and c1 = pad ++ [framed mid2, framed c2]. With the module's 8-byte frames the two
// preimages differ; a narrower frame that a long admissible field can overflow makes them collide.
func frameWrap(k int, le bool, a []byte, mid, mid2 [][]byte, c2 []byte) (a2, c1 []byte) {
	mod := 1 << (8 * uint(k))
	fr := func(n int) []byte {
		out := make([]byte, k)
		v := n % mod
		for i := 0; i < k; i++ {
			if le {
				out[i] = byte(v >> (8 * uint(i)))
			} else {
				out[k-1-i] = byte(v >> (8 * uint(i)))
			}
		}
		return out
	}
	var tail []byte // framed mid2 and c2
	for _, f := range mid2 {
		tail = append(append(tail, fr(len(f))...), f...)
	}
	tail = append(append(tail, fr(len(c2))...), c2...)
	headLen := k // frame of c1
	for _, f := range mid {
		headLen += k + len(f)
	}
	padLen := mod - headLen
	if padLen < 0 {
		panic("frameWrap: fields too long for this frame width")
	}
	pad := bytes.Repeat([]byte("p"), padLen)
	c1 = append(append([]byte{}, pad...), tail...)
	var head []byte
	for _, f := range mid {
		head = append(append(head, fr(len(f))...), f...)
	}
	head = append(head, fr(len(c1))...)
	a2 = append(append(append([]byte{}, a...), head...), pad...)
	return a2, c1
}

func be8(v uint64) []byte { return sdk.Uint64ToBigEndian(v) }

// wrapPairs: frame-overflow pairs for the event types that have two free-form fields.
func (c *C14) wrapPairs() [][3]interface{} {
	var out [][3]interface{}
	s1 := hub.HexAddr("s1")
	r1 := hub.HexAddr("r1")
	for _, k := range []int{1, 2} {
		for _, le := range []bool{false, true} {
			if k == 1 && le {
				continue
			}
			name := fmt.Sprintf("%d-byte %s frame overflow", k, map[bool]string{false: "big-endian", true: "little-endian"}[le])
			// TransferToChainEvent: ... ReceiverChainId, ExternalHeight, TxHash
			{
				a2, c1 := frameWrap(k, le, []byte("ethereum"), [][]byte{be8(100)}, [][]byte{be8(101)}, []byte("0xbb"))
				e1 := &mhubtypes.TransferToChainEvent{EventNonce: 7, ExternalCoinId: "1", Amount: sdk.NewInt(0x3201 * 1000), Fee: sdk.NewInt(10), Sender: s1[2:], ReceiverChainId: "ethereum", ExternalReceiver: r1, ExternalHeight: 100, TxHash: string(c1)}
				e2 := &mhubtypes.TransferToChainEvent{EventNonce: 7, ExternalCoinId: "1", Amount: sdk.NewInt(0x3201 * 1000), Fee: sdk.NewInt(10), Sender: s1[2:], ReceiverChainId: string(a2), ExternalReceiver: r1, ExternalHeight: 101, TxHash: "0xbb"}
				out = append(out, [3]interface{}{"TransferToChainEvent", c14Variant{"long txhash", "minter", e1}, c14Variant{"destination+height+txhash(" + name + ")", "minter", e2}})
			}
			// BatchExecutedEvent: ... TxHash, FeePaid, FeePayer
			{
				a2, c1 := frameWrap(k, le, []byte("0xaa"), [][]byte{[]byte("1000000")}, [][]byte{[]byte("5000000")}, []byte(r1))
				e1 := &mhubtypes.BatchExecutedEvent{ExternalCoinId: EthHub, EventNonce: 7, ExternalHeight: 100, BatchNonce: 1, TxHash: "0xaa", FeePaid: sdk.NewInt(1_000_000), FeePayer: string(c1)}
				e2 := &mhubtypes.BatchExecutedEvent{ExternalCoinId: EthHub, EventNonce: 7, ExternalHeight: 100, BatchNonce: 1, TxHash: string(a2), FeePaid: sdk.NewInt(5_000_000), FeePayer: r1}
				out = append(out, [3]interface{}{"BatchExecutedEvent", c14Variant{"long feepayer", "ethereum", e1}, c14Variant{"txhash+feepaid+feepayer(" + name + ")", "ethereum", e2}})
			}
			// ContractCallExecutedEvent: EventNonce, InvalidationScope, InvalidationNonce, ExternalHeight, TxHash
			{
				a2, c1 := frameWrap(k, le, []byte("ab"), [][]byte{be8(1), be8(100)}, [][]byte{be8(2), be8(101)}, []byte("0xbb"))
				e1 := &mhubtypes.ContractCallExecutedEvent{EventNonce: 7, InvalidationScope: []byte("ab"), InvalidationNonce: 1, ExternalHeight: 100, TxHash: string(c1)}
				e2 := &mhubtypes.ContractCallExecutedEvent{EventNonce: 7, InvalidationScope: a2, InvalidationNonce: 2, ExternalHeight: 101, TxHash: "0xbb"}
				out = append(out, [3]interface{}{"ContractCallExecutedEvent", c14Variant{"long txhash", "ethereum", e1}, c14Variant{"scope+invalidationnonce+height+txhash(" + name + ")", "ethereum", e2}})
			}
		}
	}
	// a length frame written as decimal text without a terminator ("%d%s") is not prefix-free: the digits of a length and
	// leading digits of a content can trade places. TxHash, FeePaid, FeePayer of a BatchExecutedEvent are adjacent text fields:
	//   "66"+"0xabc19102"+Y | "1"+"5" | "42"+payer   ==   "6"+"60xabc" | "1"+"9" | "102"+(Y+"1542"+payer)
	{
		y := strings.Repeat("c0ffee11", 7) // 56 characters
		e1 := &mhubtypes.BatchExecutedEvent{ExternalCoinId: EthHub, EventNonce: 7, ExternalHeight: 100, BatchNonce: 1, TxHash: "0xabc19102" + y, FeePaid: sdk.NewInt(5), FeePayer: r1}
		e2 := &mhubtypes.BatchExecutedEvent{ExternalCoinId: EthHub, EventNonce: 7, ExternalHeight: 100, BatchNonce: 1, TxHash: "60xabc", FeePaid: sdk.NewInt(9), FeePayer: y + "15" + "42" + r1}
		out = append(out, [3]interface{}{"BatchExecutedEvent", c14Variant{"66-character txhash", "ethereum", e1}, c14Variant{"txhash+feepaid+feepayer(decimal text frame re-cut)", "ethereum", e2}})
		// the same with the frame AFTER the content ("%s%d") or a separator that the content may contain ("%s|")
		e3 := &mhubtypes.BatchExecutedEvent{ExternalCoinId: EthHub, EventNonce: 7, ExternalHeight: 100, BatchNonce: 1, TxHash: "0xaa|5|0xbb", FeePaid: sdk.NewInt(7), FeePayer: r1}
		e4 := &mhubtypes.BatchExecutedEvent{ExternalCoinId: EthHub, EventNonce: 7, ExternalHeight: 100, BatchNonce: 1, TxHash: "0xaa", FeePaid: sdk.NewInt(5), FeePayer: "0xbb|7|" + r1}
		out = append(out, [3]interface{}{"BatchExecutedEvent", c14Variant{"txhash containing separators", "ethereum", e3}, c14Variant{"txhash+feepaid+feepayer(separator re-cut)", "ethereum", e4}})
	}
	return out
}

// cloneEvent copies the event struct (PackEvent / Marshal normalise absent integers in place).
func cloneEvent(e mhubtypes.ExternalEvent) mhubtypes.ExternalEvent {
	switch x := e.(type) {
	case *mhubtypes.SendToHubEvent:
		c := *x
		return &c
	case *mhubtypes.TransferToChainEvent:
		c := *x
		return &c
	case *mhubtypes.BatchExecutedEvent:
		c := *x
		return &c
	case *mhubtypes.ContractCallExecutedEvent:
		c := *x
		return &c
	case *mhubtypes.SignerSetTxExecutedEvent:
		c := *x
		return &c
	}
	panic(fmt.Sprintf("cloneEvent: %T", e))
}

type C14 struct {
	bridge       *Bridge
	inadmissible []string
}

func NewC14() *C14 {
	cfg := BridgeCfg{Prop: "C14", Tokens: stdTokens(18), Powers: []int64{10, 10, 10}, Users: 2}
	return &C14{bridge: NewBridge(cfg)}
}

// prestate: prices present, a pending ethereum batch (nonce 1, EthHub) and a second one (EthEth), users funded.
func (c *C14) prestate(in *hub.Instance) *hub.Snapshot {
	b := c.bridge
	in.InitGenesis(b.Genesis())
	u := b.Usr[0]
	for _, d := range []string{"hub", "eth"} {
		for i := 0; i < 2; i++ {
			r := in.DeliverMsg(mhubtypes.NewMsgSendToExternal("ethereum", u, hub.HexAddr("rcpt"), sdk.NewInt64Coin(d, 1_000_000_000_000), sdk.NewInt64Coin(d, 1_000_000_000+int64(i))))
			if !r.OK() {
				panic(fmt.Sprint(r.Err, r.Panic))
			}
		}
		if r := in.DeliverMsg(&mhubtypes.MsgRequestBatchTx{ChainId: "ethereum", Denom: d, Signer: u.String()}); !r.OK() {
			panic(r.Err)
		}
	}
	return in.Snapshot()
}

func (c *C14) effect(in *hub.Instance, pre *hub.Snapshot, v c14Variant) string {
	// the event that is applied is the one stored in the vote record: recordEventVote packs it (PackEvent), which
	// normalises an absent integer field to zero in place
	ev := cloneEvent(v.Ev)
	if _, err := mhubtypes.PackEvent(ev); err != nil {
		return "pack error: " + err.Error()
	}
	v.Ev = ev
	in.Restore(pre)
	ctx := in.Ctx()
	cctx, write := ctx.CacheContext()
	var err error
	p := func() (p interface{}) {
		defer func() { p = recover() }()
		err = in.Hub.ExternalEventProcessor.Handle(cctx, mhubtypes.ChainID(v.Chain), v.Ev)
		return nil
	}()
	if p == nil && err == nil {
		write()
	}
	// ... and what the tally itself takes from the accepted event: its nonce becomes the chain's last observed event
	// nonce, its external height the chain's last observed height (batch timeouts are measured against it)
	return fmt.Sprintf("%s|err=%v|panic=%v|nonce=%d|height=%d", in.Snapshot().StoreDigest(), err, p, ev.GetEventNonce(), ev.GetExternalHeight())
}

type c14Result struct {
	pairs, equalHash, distinctSigs int
	violations                     []engine.Violation
	samples                        []interface{}
	sigs                           map[string]bool
}

func (c *C14) run() c14Result {
	in := hub.New()
	pre := c.prestate(in)
	res := c14Result{sigs: map[string]bool{}}
	check := func(typ string, a, b c14Variant) {
		res.pairs++
		sig := typ + ":" + a.Name + "~" + b.Name
		if a.Name == "" {
			sig = typ + ":" + b.Name
		}
		res.sigs[sig] = true
		if err := a.Ev.Validate(mhubtypes.ChainID(a.Chain)); err != nil {
			panic(fmt.Sprintf("grid event not admissible: %s %v", sig, err))
		}
		if err := b.Ev.Validate(mhubtypes.ChainID(b.Chain)); err != nil {
			panic(fmt.Sprintf("grid event not admissible: %s %v", sig, err))
		}
		ha, hb := a.Ev.Hash(), b.Ev.Hash()
		if len(res.samples) < 6 {
			res.samples = append(res.samples, map[string]string{"type": typ, "a": a.Name, "b": b.Name, "hash_a": fmt.Sprintf("%x", ha.Bytes()[:6]), "hash_b": fmt.Sprintf("%x", hb.Bytes()[:6])})
		}
		if !bytes.Equal(ha, hb) {
			return
		}
		res.equalHash++
		sameType := fmt.Sprintf("%T", a.Ev) == fmt.Sprintf("%T", b.Ev)
		ea, eb := c.effect(in, pre, a), c.effect(in, pre, b)
		if sameType && ea == eb {
			return // equal claim id, measured effect identical: the differing field does not influence the effect
		}
		fields := b.Name
		if a.Name != "" {
			fields = a.Name + "~" + b.Name
		}
		res.violations = append(res.violations, engine.Violation{Property: "C14", Rule: "different_events_same_claim_id", Site: typ + "." + fields,
			Detail: fmt.Sprintf("%s variants %q and %q have the same Hash() %x but different effect (or type): %v vs %v", typ, a.Name, b.Name, ha.Bytes()[:8], a.Ev, b.Ev)})
	}
	vs := c.variants()
	// a claim has ONE identifier: the id a vote is looked up by (before the record is stored) must be the id the
	// record is stored under (after PackEvent normalised the event), otherwise a later identical claim starts a fresh
	// record over the stored one
	for typ, l := range vs {
		for _, v := range l {
			before := fmt.Sprintf("%x", v.Ev.Hash().Bytes())
			same := cloneEvent(v.Ev)
			if _, err := mhubtypes.PackEvent(same); err != nil {
				continue
			}
			after := fmt.Sprintf("%x", same.Hash().Bytes())
			res.pairs++
			if before != after {
				res.violations = append(res.violations, engine.Violation{Property: "C14", Rule: "claim_id_changes_when_the_vote_record_is_stored", Site: typ + "." + v.Name,
					Detail: fmt.Sprintf("%s variant %q: Hash() is %s when the vote is looked up and %s once the event has been packed into the vote record; votes for one event land in different records (a later claim overwrites the stored record)", typ, v.Name, before[:12], after[:12])})
			}
		}
	}
	var types []string
	for t := range vs {
		types = append(types, t)
	}
	sort.Strings(types)
	for _, t := range types {
		l := vs[t]
		for i := 0; i < len(l); i++ {
			for j := i + 1; j < len(l); j++ {
				check(t, l[i], l[j])
			}
		}
	}
	a, b := c.crossType()
	check("SendToHubEvent/TransferToChainEvent", a, b)
	for _, p := range c.wrapPairs() {
		check(p[0].(string), p[1].(c14Variant), p[2].(c14Variant))
	}
	res.distinctSigs = len(res.sigs)
	return res
}

func init() {
	Register("C14", func(tier string) *Runner {
		return &Runner{Run: func(o RunOpts) Output {
			start := time.Now()
			c := NewC14()
			r := c.run()
			out := Output{Known: map[string]*KnownOut{}}
			seen := map[string]bool{}
			for _, v := range r.violations {
				sig := v.Property + "|" + v.Signature()
				if o.Known[sig] {
					if out.Known[sig] == nil {
						out.Known[sig] = &KnownOut{Example: v.Detail}
					}
					out.Known[sig].Count++
					continue
				}
				if !seen[sig] {
					seen[sig] = true
					out.Violations = append(out.Violations, engine.Found{Violation: v, Reproduced: 5})
				}
			}
			out.Evidence = map[string]interface{}{"level": "exploration", "coverage": map[string]interface{}{
				"evaluations": r.pairs, "distinct_nontrivial": r.distinctSigs,
				"rule":        "all unordered pairs of per-field variants of each of the 5 event types (base + 5..25 alternatives incl. other spellings of one address (prefix 0x/0X/none, letter case) wherever Validate admits them, amounts differing only above bit 64/128/192, Minter ids 1/12 with amounts whose big-endian bytes start with 0x32) plus one constructed cross-type pair and, for the three event types with two free-form fields, constructed frame-overflow pairs for 1- and 2-byte length frames (a field of length n and one of length n+2^(8k) frame identically), for unterminated decimal-text length frames and for in-band separators; a pair is distinct by (type, set of differing fields); every pair is hashed with the real Hash(); pairs with equal hash are applied with the real ExternalEventProcessor.Handle to a pre-state with pending batches and compared by store digest",
				"samples":     r.samples, "equal_hash_pairs": r.equalHash, "exhaustive": true, "variants_not_admitted_by_validate": c.inadmissible,
			}, "assumptions": []string{"effect = store digest + error after Handle on one representative pre-state (prices present, two pending ethereum batches, funded users); module hooks are nil as in app.go"}}
			out.Summary = fmt.Sprintf("pairs=%d equal_hash=%d violations=%d known=%d (%s)", r.pairs, r.equalHash, len(out.Violations), len(out.Known), time.Since(start).Round(time.Millisecond))
			return out
		}}
	})
}
