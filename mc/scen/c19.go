package scen

import (
	"fmt"
	"math/big"
	"runtime"
	"strings"
	"sync"
	"time"

	sdk "github.com/cosmos/cosmos-sdk/types"

	"verifmc/engine"
	"verifmc/hub"

	mhubtypes "github.com/MinterTeam/mhub2/module/x/mhub2/types"
	oracletypes "github.com/MinterTeam/mhub2/module/x/oracle/types"
)

// C19: fees and commissions are distributed within what was collected. Grid of batch shapes x
// reported gas cost x price ratio x decimals x power split x transfer origin; every tuple is driven
// through the real path (sends / cross-chain deposits, batch request, execution event voted by all
// validators, EndBlocker) and the payouts found in the Minter pool and the fee records are compared
// with exact rational bounds.

type c19Case struct {
	Size    int
	Spread  int // 0 equal, 1 one dominant, 2 zeros mixed
	FeePaid int // 0 zero, 1 small, 2 huge
	Price   int // 0 ratio 1, 1 gas coin cheap, 2 gas coin expensive
	Dec     uint64
	Powers  []int64
	Origin  string // "hub" | "minter" | "mixed" (even transfers from Minter, odd ones from the hub)
	Chain   string // ethereum | bsc
	NoKey   int    // index of a validator without a Minter address (-1: all registered)
	Shift   bool   // the stake moves (by less than a signer-set refresh needs) after the Minter signer set was published
	Tiny    int64  // >0: transfer amount in hub units (commission of a few units: shares round to zero)
	OneTx   bool   // the hub-originated transfers are sent in ONE transaction (they share its hash)
	NoMinter bool  // the token has no Minter row: commissions and fee payouts cannot be made, the fees are kept whole
}

func c19Cases(tier string) []c19Case {
	var out []c19Case
	sizes := []int{1, 2, 3}
	if tier == "thorough" {
		sizes = []int{1, 2, 3, 5, 100}
	}
	for _, sz := range sizes {
		for sp := 0; sp < 3; sp++ {
			for fp := 0; fp < 3; fp++ {
				for pr := 0; pr < 3; pr++ {
					for _, d := range []uint64{6, 18, 24} {
						for _, pw := range [][]int64{{10, 10, 10}, {50, 30, 20}, {1, 1}, {7}} {
							for _, or := range []string{"hub", "minter", "mixed"} {
								if or == "mixed" && sz < 2 {
									continue
								}
								ch := "ethereum"
								if (sz+sp+fp+pr)%2 == 1 {
									ch = "bsc"
								}
								out = append(out, c19Case{sz, sp, fp, pr, d, pw, or, ch, -1, false, 0, false, false})
							}
						}
					}
				}
			}
		}
	}
	// a validator without a Minter address ranked before / between registered ones (unequal powers)
	for _, pw := range [][]int64{{60, 30, 10}, {30, 60, 10}, {20, 30, 50}} {
		for nk := 0; nk < 2; nk++ {
			for _, d := range []uint64{6, 18} {
				out = append(out, c19Case{2, 0, 1, 0, d, pw, "hub", "ethereum", nk, false, 0, false, false})
			}
		}
	}
	// voting power that moved since the Minter signer set was last published (no new set: the shift is below 5%, and
	// no BeginBlocker runs in between anyway): payouts follow the power at execution time
	for _, pw := range [][]int64{{50, 30, 20}, {1000, 1000, 1000}, {10, 10}} {
		for _, or := range []string{"hub", "minter"} {
			for _, d := range []uint64{6, 18} {
				for fp := 0; fp < 2; fp++ {
					out = append(out, c19Case{2, 0, fp, 0, d, pw, or, "ethereum", -1, true, 0, false, false})
				}
			}
		}
	}
	// large fees, an almost free relay, shares that are repeating decimals: a refund computed through rounded
	// decimals may exceed the fee paid by a few units
	for _, sz := range []int{2, 3, 5} {
		for _, d := range []uint64{18, 6} {
			out = append(out, c19Case{sz, 3, 3, 0, d, []int64{10, 10, 10}, "minter", "ethereum", -1, false, 0, false, false})
		}
	}
	// a fee equal to the average reimbursement truncated to external units (below the average itself)
	for _, sz := range []int{2, 3} {
		for _, d := range []uint64{6, 18} {
			out = append(out, c19Case{sz, 4, 4, 0, d, []int64{10, 10, 10}, "minter", "ethereum", -1, false, 0, false, false})
		}
	}
	// a token that is not listed on Minter: no payout can be made; the execution is applied all the same and the fee
	// records report the whole fee as kept
	for _, d := range []uint64{6, 18} {
		for fp := 0; fp < 2; fp++ {
			out = append(out, c19Case{2, 1, fp, 0, d, []int64{10, 10, 10}, "hub", "ethereum", -1, false, 0, false, true})
		}
	}
	// several hub withdrawals of ONE transaction (they share its hash) in a batch with transfers from Minter, cheap gas:
	// the surplus is shared among the transfers, not among the transaction hashes
	for _, sz := range []int{4, 5} {
		for _, sp := range []int{0, 1} {
			for _, d := range []uint64{6, 18} {
				out = append(out, c19Case{sz, sp, 3, 0, d, []int64{10, 10, 10}, "mixed", "ethereum", -1, false, 0, true, false})
			}
		}
	}
	// two withdrawals with different fees in one hub transaction
	for _, d := range []uint64{6, 18} {
		out = append(out, c19Case{2, 1, 1, 0, d, []int64{10, 10, 10}, "hub", "ethereum", -1, false, 0, true, false})
	}
	// many validators: every bonded validator with a Minter address has its share, however many there are (the Minter
	// multisig's own size limit is no reason to leave the smaller ones out of the split)
	for _, n := range []int{32, 33, 40} {
		eq, desc := make([]int64, n), make([]int64, n)
		for i := range eq {
			eq[i], desc[i] = 10, int64(n-i)
		}
		out = append(out, c19Case{2, 0, 1, 0, 18, eq, "hub", "ethereum", -1, false, 0, false, false},
			c19Case{2, 0, 1, 0, 18, desc, "minter", "ethereum", -1, false, 0, false, false})
	}
	// commissions of a few units only
	for _, amt := range []int64{100, 250, 1000} {
		for _, pw := range [][]int64{{10, 10, 10}, {98, 1, 1}, {7}} {
			for _, sz := range []int{1, 2} {
				out = append(out, c19Case{sz, 0, 1, 0, 18, pw, "hub", "ethereum", -1, false, amt, false, false})
			}
		}
	}
	return out
}

type c19Res struct {
	viol    []engine.Violation
	outcome string
}

func c19Run(in *hub.Instance, cs c19Case) (res c19Res) {
	bad := func(rule, site, f string, a ...interface{}) {
		res.viol = append(res.viol, engine.Violation{Property: "C19", Rule: rule, Site: site, Detail: fmt.Sprintf("%+v: ", cs) + fmt.Sprintf(f, a...)})
	}
	var vals []hub.Validator
	for i := range cs.Powers {
		vals = append(vals, hub.NewValidator(string(rune('A'+i))))
	}
	var users []sdk.AccAddress
	for i := 0; i < cs.Size; i++ {
		users = append(users, hub.User(fmt.Sprintf("c19u%d", i)))
	}
	tokExt := EthHub
	if cs.Chain == "bsc" {
		tokExt = BscHub
	}
	e30 := sdk.NewIntFromBigInt(pow10(30))
	g := StdGenesis(vals, cs.Powers, users, sdk.NewCoins(sdk.NewCoin("hub", e30)))
	origin := func(i int) string {
		if cs.Origin == "mixed" {
			if i%2 == 0 {
				return "minter"
			}
			return "hub"
		}
		return cs.Origin
	}
	if cs.NoKey >= 0 {
		for _, es := range g.Hub.ExternalStates {
			if es.ChainId != "minter" {
				continue
			}
			var keep []*mhubtypes.MsgDelegateKeys
			for _, dk := range es.DelegateKeys {
				if dk.ValidatorAddress != vals[cs.NoKey].Oper.String() {
					keep = append(keep, dk)
				}
			}
			es.DelegateKeys = keep
		}
	}
	g.Hub.TokenInfos = &mhubtypes.TokenInfos{TokenInfos: []*mhubtypes.TokenInfo{
		{Id: 1, Denom: "hub", ChainId: cs.Chain, ExternalTokenId: tokExt, ExternalDecimals: cs.Dec, Commission: sdk.NewDec(1).QuoInt64(100)},
		{Id: 2, Denom: "hub", ChainId: "minter", ExternalTokenId: "1", ExternalDecimals: 18, Commission: sdk.NewDec(1).QuoInt64(100)},
	}}
	if cs.NoMinter {
		g.Hub.TokenInfos.TokenInfos = g.Hub.TokenInfos.TokenInfos[:1]
	}
	base := "eth"
	if cs.Chain == "bsc" {
		base = "bnb"
	}
	pb, ph := sdk.NewDec(1), sdk.NewDec(1)
	switch cs.Price {
	case 1:
		pb = sdk.NewDecWithPrec(1, 6)
	case 2:
		pb = sdk.NewDec(1_000_000)
	}
	g.Oracle.Prices = &oracletypes.Prices{List: []*oracletypes.Price{{Name: base, Value: pb}, {Name: "hub", Value: ph}}}
	in.InitGenesis(g)

	// fees per transfer (hub units)
	unit := pow10(15) // 0.001 hub: survives a 6-decimals conversion
	if cs.Tiny > 0 {
		unit = big.NewInt(1)
	}
	fees := make([]*big.Int, cs.Size)
	for i := range fees {
		switch cs.Spread {
		case 0:
			fees[i] = new(big.Int).Mul(unit, big.NewInt(5))
		case 1:
			fees[i] = new(big.Int).Set(unit)
			if i == 0 {
				fees[i] = new(big.Int).Mul(unit, big.NewInt(1000))
			}
		case 4:
			// 3 and 40 units of a 6-decimals token; with FeePaid 4 the average reimbursement per transfer is 3.75 units: the
			// first transfer paid less than the average (it counts for no refund), yet as much as the average truncated to
			// whole external units
			fees[i] = new(big.Int).Mul(pow10(12), big.NewInt(3))
			if i > 0 {
				fees[i] = new(big.Int).Mul(pow10(12), big.NewInt(40))
			}
		case 3:
			// thousands of whole tokens, in the ratio 2 : 1 : 1 ... (shares 2/3, 1/3: one of them is a repeating decimal
			// that rounds up at the 18th digit)
			fees[i] = new(big.Int).Mul(pow10(18), big.NewInt(1000))
			if i == 0 {
				fees[i] = new(big.Int).Mul(pow10(18), big.NewInt(2000))
			}
		default:
			fees[i] = big.NewInt(0)
			if i%2 == 0 {
				fees[i] = new(big.Int).Mul(unit, big.NewInt(3))
			}
		}
	}
	amount := new(big.Int).Mul(unit, big.NewInt(100000))
	if cs.Tiny > 0 {
		amount = big.NewInt(cs.Tiny)
	}
	if cs.Spread == 3 {
		amount = new(big.Int).Mul(pow10(18), big.NewInt(1_000_000))
	}
	if cs.Shift {
		// a Minter signer set is published for the genesis stake
		if p := in.NextBlock(5); p != nil {
			res.outcome = "block-failure"
			return
		}
	}
	txhash := make([]string, cs.Size)
	refundAddr := make([]string, cs.Size)
	evNonce := uint64(0)
	sharedHash := ""
	if cs.OneTx {
		var msgs []sdk.Msg
		for i := 0; i < cs.Size; i++ {
			if origin(i) != "hub" {
				continue
			}
			msgs = append(msgs, mhubtypes.NewMsgSendToExternal(mhubtypes.ChainID(cs.Chain), users[i], hub.HexAddr(fmt.Sprintf("rc%d", i)), sdk.NewCoin("hub", sdk.NewIntFromBigInt(amount)), sdk.NewCoin("hub", sdk.NewIntFromBigInt(fees[i]))))
		}
		r := in.DeliverMsgs(msgs...)
		if !r.OK() {
			res.outcome = "setup-send-failed"
			return
		}
		for i := range txhash {
			if origin(i) == "hub" {
				txhash[i] = r.TxHash
			}
		}
		sharedHash = r.TxHash
	}
	for i := 0; i < cs.Size; i++ {
		if origin(i) == "hub" && cs.OneTx {
			continue
		}
		if origin(i) == "hub" {
			r := in.DeliverMsg(mhubtypes.NewMsgSendToExternal(mhubtypes.ChainID(cs.Chain), users[i], hub.HexAddr(fmt.Sprintf("rc%d", i)), sdk.NewCoin("hub", sdk.NewIntFromBigInt(amount)), sdk.NewCoin("hub", sdk.NewIntFromBigInt(fees[i]))))
			if !r.OK() {
				res.outcome = "setup-send-failed"
				return
			}
			txhash[i] = r.TxHash
		} else {
			// a Minter user sends to the external chain through the hub: refundable to Minter
			evNonce++
			refundAddr[i] = hub.HexAddr(fmt.Sprintf("mx%d", i))
			txhash[i] = fmt.Sprintf("0xminter%d", i)
			tot := new(big.Int).Add(amount, fees[i])
			ev := &mhubtypes.TransferToChainEvent{EventNonce: evNonce, ExternalCoinId: "1", Amount: sdk.NewIntFromBigInt(tot), Fee: sdk.NewIntFromBigInt(fees[i]), Sender: refundAddr[i],
				ReceiverChainId: cs.Chain, ExternalReceiver: hub.HexAddr(fmt.Sprintf("rc%d", i)), ExternalHeight: 100 + evNonce, TxHash: txhash[i]}
			for _, v := range vals {
				in.DeliverMsg(hub.EventMsg(v.Orch, "minter", ev))
			}
		}
	}
	if cs.Origin != "hub" {
		if p := in.NextBlock(5); p != nil {
			res.outcome = "block-failure"
			return
		}
	}
	// make sure everything is in one batch
	in.DeliverMsg(&mhubtypes.MsgRequestBatchTx{ChainId: cs.Chain, Denom: "hub", Signer: users[0].String()})
	var bt *mhubtypes.BatchTx
	in.Hub.IterateOutgoingTxsByType(in.Ctx(), mhubtypes.ChainID(cs.Chain), mhubtypes.BatchTxPrefixByte, func(_ []byte, o mhubtypes.OutgoingTx) bool {
		bt = o.(*mhubtypes.BatchTx)
		return true
	})
	if bt == nil || len(bt.Transactions) != cs.Size {
		n := 0
		if bt != nil {
			n = len(bt.Transactions)
		}
		res.outcome = fmt.Sprintf("setup-batch-%d", n)
		return
	}
	// collected (external units of the batch token) per tx
	feeExt := map[string]*big.Int{}
	totalFeeExt, totalComExt := new(big.Int), new(big.Int)
	for _, tx := range bt.Transactions {
		feeExt[tx.TxHash] = tx.Fee.Amount.BigInt()
		totalFeeExt.Add(totalFeeExt, tx.Fee.Amount.BigInt())
		totalComExt.Add(totalComExt, tx.ValCommission.Amount.BigInt())
	}
	toHub := func(x *big.Int) *big.Rat { return toHubRat(x, cs.Dec) }
	// pool of minter before
	before := map[uint64]bool{}
	in.Hub.IterateUnbatchedSendToExternals(in.Ctx(), "minter", func(s *mhubtypes.SendToExternal) bool { before[s.Id] = true; return false })
	feePaid := sdk.ZeroInt()
	switch cs.FeePaid {
	case 4:
		feePaid = sdk.NewIntFromBigInt(new(big.Int).Mul(pow10(12), big.NewInt(5))) // reimbursed 7.5e12 at price ratio 1
	case 3:
		feePaid = sdk.NewInt(1) // an almost free relay: the whole fee is surplus
	case 1:
		feePaid = sdk.NewIntFromBigInt(new(big.Int).Mul(unit, big.NewInt(2)))
	case 2:
		feePaid = sdk.NewIntFromBigInt(pow10(40))
	}
	powers := append([]int64(nil), cs.Powers...)
	if cs.Shift {
		// 4% of the first validator's stake moves to the last one
		d := powers[0] * 4 / 100
		if d == 0 {
			d = 1
		}
		powers[0] -= d
		powers[len(powers)-1] += d
		for i := range powers {
			in.ValSetPower(i, powers[i])
		}
	}
	payer := hub.HexAddr("relayer")
	evNonce = in.Hub.GetLastObservedEventNonce(in.Ctx(), mhubtypes.ChainID(cs.Chain)) + 1
	ev := &mhubtypes.BatchExecutedEvent{ExternalCoinId: tokExt, EventNonce: evNonce, ExternalHeight: 500, BatchNonce: bt.BatchNonce, TxHash: "0xexec", FeePaid: feePaid, FeePayer: payer}
	for _, v := range vals {
		in.DeliverMsg(hub.EventMsg(v.Orch, cs.Chain, ev))
	}
	in.ErrLog = nil
	if p := in.EndBlock(); p != nil {
		res.outcome = "block-failure"
		return
	}
	for _, m := range in.ErrLog {
		// a listed token, prices and Minter keys are in place: nothing justifies dropping the payouts of the batch
		if strings.Contains(m, "payouts of an executed batch failed") && !cs.NoMinter {
			bad("payouts_of_executed_batch_failed", "batchTxExecuted", "%s", m)
		}
	}
	// batch must be gone (event applied)
	still := false
	in.Hub.IterateOutgoingTxsByType(in.Ctx(), mhubtypes.ChainID(cs.Chain), mhubtypes.BatchTxPrefixByte, func(_ []byte, o mhubtypes.OutgoingTx) bool { still = true; return true })
	if still {
		res.outcome = "execution-not-applied"
		return
	}
	// new Minter pool entries = payouts (Minter token has 18 decimals: external unit == hub unit)
	reimb, refunds, coms := new(big.Int), map[string]*big.Int{}, map[string]*big.Int{}
	in.Hub.IterateUnbatchedSendToExternals(in.Ctx(), "minter", func(s *mhubtypes.SendToExternal) bool {
		if before[s.Id] {
			return false
		}
		v := s.Token.Amount.BigInt()
		switch s.TxHash {
		case "#commission":
			k := strings.ToLower(s.ExternalRecipient)
			if coms[k] == nil {
				coms[k] = new(big.Int)
			}
			coms[k].Add(coms[k], v)
		case "#fee":
			if strings.EqualFold(s.ExternalRecipient, payer) {
				reimb.Add(reimb, v)
			} else {
				k := strings.ToLower(s.ExternalRecipient)
				if refunds[k] == nil {
					refunds[k] = new(big.Int)
				}
				refunds[k].Add(refunds[k], v)
			}
		}
		return false
	})
	// (1) reimbursement <= fees collected in the batch
	if new(big.Rat).SetInt(reimb).Cmp(toHub(totalFeeExt)) > 0 {
		bad("reimbursement_exceeds_collected_fees", "batchTxExecuted", "relayer reimbursed %s, batch collected %s", reimb, toHub(totalFeeExt).FloatString(0))
	}
	// (2) each refund <= the fee that user paid; refunds only to refund addresses of the batch
	totalRef := new(big.Int)
	refundGiven := map[int]*big.Int{}
	for i := 0; i < cs.Size; i++ {
		if origin(i) != "minter" {
			continue
		}
		r := refunds[strings.ToLower(refundAddr[i])]
		if r == nil {
			continue
		}
		totalRef.Add(totalRef, r)
		refundGiven[i] = new(big.Int).Set(r)
		if new(big.Rat).SetInt(r).Cmp(toHub(feeExt[txhash[i]])) > 0 {
			bad("fee_refund_exceeds_fee_paid", "batchTxExecuted", "transfer %d refunded %s, paid %s", i, r, toHub(feeExt[txhash[i]]).FloatString(0))
		}
		delete(refunds, strings.ToLower(refundAddr[i]))
	}
	for k, v := range refunds {
		bad("fee_refund_to_unrelated_address", "batchTxExecuted", "%s received %s", k, v)
	}
	if new(big.Rat).SetInt(new(big.Int).Add(reimb, totalRef)).Cmp(toHub(totalFeeExt)) > 0 {
		bad("fee_payouts_exceed_collected_fees", "batchTxExecuted", "reimbursement %s + refunds %s > collected %s", reimb, totalRef, toHub(totalFeeExt).FloatString(0))
	}
	// (3) commission payouts proportional to power, sum <= collected
	sumCom := new(big.Int)
	totStake := int64(0)
	for i, p := range powers {
		if i != cs.NoKey {
			totStake += p // commission goes to the validators that have a Minter address
		}
	}
	collected := toHub(totalComExt)
	for i, v := range vals {
		got := coms[strings.ToLower(v.Eth.Hex())]
		if got == nil {
			got = new(big.Int)
		}
		sumCom.Add(sumCom, got)
		// share of what is paid out in total (= collected, truncated)
		want := new(big.Rat).Mul(collected, big.NewRat(powers[i], totStake))
		if i == cs.NoKey || cs.NoMinter {
			want = new(big.Rat) // (without a Minter row nothing can be paid out: everything collected is kept)
		}
		diff := new(big.Rat).Sub(new(big.Rat).SetInt(got), want)
		tol := new(big.Rat).Add(big.NewRat(1, 1), new(big.Rat).Mul(collected, big.NewRat(int64(len(vals)), 1<<32)))
		if diff.Sign() < 0 {
			diff.Neg(diff)
		}
		if diff.Cmp(tol) > 0 {
			bad("commission_not_proportional_to_power", "batchTxExecuted", "validator %d (stake %d/%d) received %s, proportional share %s", i, powers[i], totStake, got, want.FloatString(2))
		}
		delete(coms, strings.ToLower(v.Eth.Hex()))
	}
	for k, v := range coms {
		bad("commission_to_non_validator", "batchTxExecuted", "%s received %s", k, v)
	}
	if new(big.Rat).SetInt(sumCom).Cmp(collected) > 0 {
		bad("commission_payouts_exceed_collected", "batchTxExecuted", "paid %s, collected %s", sumCom, collected.FloatString(0))
	}
	if cs.OneTx {
		// the transfers share the transaction hash and with it the fee record: it can report the fee kept of one of them only
		rec := in.Hub.GetTxFeeRecord(in.Ctx(), sharedHash)
		for _, tx := range bt.Transactions {
			if tx.TxHash != sharedHash {
				continue
			}
			if rec == nil || !rec.ExternalFee.Equal(tx.Fee.Amount) {
				bad("fee_record_differs_from_fee_kept", "batchTxExecuted(TxFeeRecord of transfers sharing one transaction hash)", "transfer %d of transaction %s paid and kept fee %s external units, the fee record of its transaction reports %v", tx.Id, sharedHash[:8], tx.Fee.Amount, rec)
			}
		}
		res.outcome = "executed (two transfers of one transaction)"
		return
	}
	// (4) fee record: between zero and the fee paid, in the token's external units
	for i := 0; i < cs.Size; i++ {
		rec := in.Hub.GetTxFeeRecord(in.Ctx(), txhash[i])
		if rec == nil {
			bad("fee_record_missing", "SetTxFeeRecord", "transfer %d", i)
			continue
		}
		f := rec.ExternalFee.BigInt()
		if f.Sign() < 0 || f.Cmp(feeExt[txhash[i]]) > 0 {
			bad("fee_record_out_of_range", "batchTxExecuted(record.ExternalFee.Sub(toRefund))", "transfer %d: record says fee kept %s external units, fee paid was %s external units (token decimals %d)", i, f, feeExt[txhash[i]], cs.Dec)
		}
		// ... and it reports the fee actually kept: fee paid minus what was refunded to this transfer's refund
		// address (refund converted to external units; conversion truncates by less than one unit)
		given := refundGiven[i]
		if given == nil {
			given = new(big.Int)
		}
		keptExact := new(big.Rat).Sub(new(big.Rat).SetInt(feeExt[txhash[i]]), new(big.Rat).Quo(new(big.Rat).SetInt(given), toHub(big.NewInt(1))))
		d := new(big.Rat).Sub(new(big.Rat).SetInt(f), keptExact)
		if d.Sign() < 0 || d.Cmp(big.NewRat(1, 1)) >= 0 {
			bad("fee_record_differs_from_fee_kept", "batchTxExecuted(TxFeeRecord)", "transfer %d (refund chain %s): fee paid %s external units, refunded %s hub units, so %s was kept, but the record reports %s", i, origin(i), feeExt[txhash[i]], given, keptExact.FloatString(3), f)
		}
	}
	res.outcome = fmt.Sprintf("executed reimb>0:%v refunds:%v com>0:%v", reimb.Sign() > 0, totalRef.Sign() > 0, sumCom.Sign() > 0)
	return
}

func init() {
	Register("C19", func(tier string) *Runner {
		return &Runner{Run: func(o RunOpts) Output {
			start := time.Now()
			cases := c19Cases(o.Tier)
			res := make([]c19Res, len(cases))
			var wg sync.WaitGroup
			ch := make(chan int, 256)
			for w := 0; w < runtime.NumCPU(); w++ {
				wg.Add(1)
				go func() {
					defer wg.Done()
					in := hub.New()
					for i := range ch {
						res[i] = c19Run(in, cases[i])
					}
				}()
			}
			for i := range cases {
				ch <- i
			}
			close(ch)
			wg.Wait()
			out := Output{Known: map[string]*KnownOut{}}
			outcomes := map[string]int{}
			seen := map[string]bool{}
			nontrivial := 0
			for _, r := range res {
				outcomes[r.outcome]++
				if strings.HasPrefix(r.outcome, "executed") {
					nontrivial++
				}
				for _, v := range r.viol {
					sig := v.Property + "|" + v.Signature()
					if o.Known[sig] {
						if out.Known[sig] == nil {
							out.Known[sig] = &KnownOut{Example: v.Detail}
						}
						out.Known[sig].Count++
					} else if !seen[sig] {
						seen[sig] = true
						out.Violations = append(out.Violations, engine.Found{Violation: v, Reproduced: 5})
					}
				}
			}
			var samples []interface{}
			for i := 0; i < len(cases) && len(samples) < 5; i += len(cases)/5 + 1 {
				samples = append(samples, map[string]interface{}{"case": fmt.Sprintf("%+v", cases[i]), "outcome": res[i].outcome})
			}
			out.Evidence = map[string]interface{}{"level": "exploration", "coverage": map[string]interface{}{
				"evaluations": len(cases), "distinct_nontrivial": nontrivial,
				"rule":        "Cartesian grid: batch size x fee spread {equal, one dominant, zeros mixed} x reported gas cost {0, small, 10^40} x price ratio {1, 1e-6, 1e6} x token decimals {6,18,24} x power split {[10,10,10],[50,30,20],[1,1],[7]} x origin {hub, minter, mixed within one batch}; plus power splits with one validator lacking a Minter address; chains ethereum/bsc alternate; every tuple is executed end to end on a fresh real instance (sends or cross-chain deposits, batch, voted execution event, EndBlocker); non-trivial = the execution event was applied",
				"samples":     samples, "outcomes": outcomes, "exhaustive": true,
			}, "assumptions": []string{"prices are installed through oracle genesis", "Minter token has 18 decimals, so Minter pool amounts are hub units", "proportionality tolerance: 1 unit + n*total/2^32 (the 32-bit normalisation of signer-set powers)"}}
			out.Summary = fmt.Sprintf("cases=%d outcomes=%v violations=%d known=%d (%s)", len(cases), outcomes, len(out.Violations), len(out.Known), time.Since(start).Round(time.Millisecond))
			return out
		}}
	})
}
