//go:build c06

package scen

import (
	"crypto/sha256"
	"fmt"
	"reflect"
	"sort"
	"strings"
	"time"

	sdk "github.com/cosmos/cosmos-sdk/types"

	"verifmc/engine"
	"verifmc/hub"

	mhubtypes "github.com/MinterTeam/mhub2/module/x/mhub2/types"
	oracletypes "github.com/MinterTeam/mhub2/module/x/oracle/types"
	"github.com/MinterTeam/mhub2/module/x/verifhook"
)

// C06, second half: process-global state shared between goroutines.
//
// A node executes blocks on one goroutine and serves gRPC queries (and transaction simulations) on others; the stores they
// work on are separate (a query reads a committed version), so the only memory they share is process-global: the
// package-level variables of the module. tools/maprw lists them, decides statically which ones the code can modify after
// initialisation (assigned, incremented, address taken, receiver of a pointer-receiver method of a type not known to be
// quiet) and puts a scheduling point before and after every statement that mentions one. Here a block transition (thread B,
// its own instance) and a query (thread Q, another instance restored from the same state) run under a cooperative
// scheduler that switches between them only at those points; every schedule with at most K preemptions is executed
// (K = 1 quick, 2 thorough, both starting orders) and the block's resulting state and events must be those of the block
// run alone, the query's answer that of the query run alone. With no modifiable package-level variable there is no point and
// nothing to interleave. In addition everything the package-level variables refer to is hashed (by reflection) when the
// check starts and when it ends: a variable that changed without being on the static list is reported in the evidence.

type coPoint struct {
	Thread int
	Name   string
	Can    bool // the other thread was still alive: a switch here is possible
}

type coSched struct {
	plan     []int
	start    int
	log      []coPoint
	gids     [2]int64
	cur      int
	done     [2]bool
	resume   [2]chan struct{}
	finished chan struct{}
	panics   [2]interface{}
}

var c06Active *coSched

func init() {
	verifhook.SharedPoint = func(name string) {
		if s := c06Active; s != nil {
			s.point(name)
		}
	}
}

func (s *coSched) point(name string) {
	gid := c06gid()
	t := -1
	for i := range s.gids {
		if s.gids[i] == gid {
			t = i
		}
	}
	if t < 0 || t != s.cur {
		return // a goroutine that is not part of the exploration
	}
	i := len(s.log)
	other := 1 - t
	can := !s.done[other]
	s.log = append(s.log, coPoint{t, name, can})
	if can && i < len(s.plan) && s.plan[i] == 1 {
		s.cur = other
		s.resume[other] <- struct{}{}
		<-s.resume[t]
	}
}

// run executes the two bodies under the plan and returns false if the exploration got stuck (a blocking primitive the
// scheduler does not see).
func (s *coSched) run(bodies [2]func()) bool {
	s.resume = [2]chan struct{}{make(chan struct{}), make(chan struct{})}
	s.finished = make(chan struct{})
	ready := make(chan struct{}, 2)
	for t := 0; t < 2; t++ {
		t := t
		go func() {
			s.gids[t] = c06gid()
			ready <- struct{}{}
			<-s.resume[t]
			defer func() {
				if r := recover(); r != nil {
					s.panics[t] = r
				}
				s.done[t] = true
				if o := 1 - t; !s.done[o] {
					s.cur = o
					s.resume[o] <- struct{}{}
				} else {
					close(s.finished)
				}
			}()
			bodies[t]()
		}()
	}
	<-ready
	<-ready
	s.cur = s.start
	c06Active = s
	s.resume[s.start] <- struct{}{}
	select {
	case <-s.finished:
		c06Active = nil
		return true
	case <-time.After(60 * time.Second):
		c06Active = nil
		return false
	}
}

// ---------------------------------------------------------------------------------------------
// reflection hash of everything the module's package-level variables refer to

func deepHash(v reflect.Value, h interface{ Write([]byte) (int, error) }, seen map[uintptr]bool, budget *int) {
	if *budget <= 0 {
		return
	}
	*budget--
	switch v.Kind() {
	case reflect.Ptr:
		if v.IsNil() {
			h.Write([]byte{0})
			return
		}
		if seen[v.Pointer()] {
			h.Write([]byte{1})
			return
		}
		seen[v.Pointer()] = true
		deepHash(v.Elem(), h, seen, budget)
	case reflect.Interface:
		if v.IsNil() {
			h.Write([]byte{0})
			return
		}
		deepHash(v.Elem(), h, seen, budget)
	case reflect.Struct:
		for i := 0; i < v.NumField(); i++ {
			deepHash(v.Field(i), h, seen, budget)
		}
	case reflect.Slice:
		if v.IsNil() {
			h.Write([]byte{0})
			return
		}
		fmt.Fprintf(h, "s%d:", v.Len())
		for i := 0; i < v.Len(); i++ {
			deepHash(v.Index(i), h, seen, budget)
		}
	case reflect.Array:
		for i := 0; i < v.Len(); i++ {
			deepHash(v.Index(i), h, seen, budget)
		}
	case reflect.Map:
		if v.IsNil() {
			h.Write([]byte{0})
			return
		}
		// order-independent: sum of the entry hashes
		var acc [32]byte
		it := v.MapRange()
		for it.Next() {
			eh := sha256.New()
			b := *budget
			deepHash(it.Key(), eh, map[uintptr]bool{}, &b)
			deepHash(it.Value(), eh, seen, budget)
			for i, x := range eh.Sum(nil) {
				acc[i] += x
			}
		}
		fmt.Fprintf(h, "m%d:", v.Len())
		h.Write(acc[:])
	case reflect.String:
		fmt.Fprintf(h, "%q", v.String())
	case reflect.Bool:
		fmt.Fprint(h, v.Bool())
	case reflect.Int, reflect.Int8, reflect.Int16, reflect.Int32, reflect.Int64:
		fmt.Fprint(h, v.Int(), ";")
	case reflect.Uint, reflect.Uint8, reflect.Uint16, reflect.Uint32, reflect.Uint64, reflect.Uintptr:
		fmt.Fprint(h, v.Uint(), ";")
	case reflect.Float32, reflect.Float64:
		fmt.Fprint(h, v.Float(), ";")
	case reflect.Complex64, reflect.Complex128:
		fmt.Fprint(h, v.Complex(), ";")
	case reflect.Func, reflect.Chan, reflect.UnsafePointer:
		if v.IsNil() {
			h.Write([]byte{0})
		} else {
			fmt.Fprint(h, v.Pointer(), ";")
		}
	}
}

func c06GlobalHashes() map[string]string {
	out := map[string]string{}
	for name, p := range verifhook.Globals {
		h := sha256.New()
		budget := 200_000
		deepHash(reflect.ValueOf(p), h, map[uintptr]bool{}, &budget)
		out[name] = fmt.Sprintf("%x", h.Sum(nil)[:12])
	}
	return out
}

// ---------------------------------------------------------------------------------------------
// the exploration

type c06SharedResult struct {
	Globals        int
	Pairs          int
	Schedules      int
	Points         int // scheduling points met in the default schedules
	MaxPoints      int
	Bound          int
	PointNames     map[string]int
	ChangedGlobals []string
	Stuck          int
	ZoneRuns       int
	Violation      *engine.Violation
	Path           []string
}

// c06SharedWorld: a 6-decimals token (conversions happen), holders with values at discount tiers (the discount query
// converts its thresholds), a pending transfer (expiry refunds convert back).
func c06SharedGenesis(c *C06) hub.Genesis {
	g := c.Genesis()
	var infos []*mhubtypes.TokenInfo
	for i, t := range stdTokens(6) {
		infos = append(infos, &mhubtypes.TokenInfo{Id: uint64(i + 1), Denom: t.Denom, ChainId: t.Chain, ExternalTokenId: t.ExtID, ExternalDecimals: t.Dec, Commission: sdk.NewDec(1).QuoInt64(100)})
	}
	g.Hub.TokenInfos = &mhubtypes.TokenInfos{TokenInfos: infos}
	e18 := sdk.NewIntFromBigInt(pow10(18))
	g.Oracle.Holders = &oracletypes.Holders{List: []*oracletypes.Holder{{Address: c.User.String(), Value: e18.MulRaw(3)}, {Address: hub.HexAddr("r")[2:], Value: e18.MulRaw(40)}}}
	return g
}

func c06RunShared(tier string) c06SharedResult {
	res := c06SharedResult{PointNames: map[string]int{}, Globals: len(verifhook.Globals), Bound: 1}
	if tier == "thorough" {
		res.Bound = 2
	}
	before := c06GlobalHashes()
	c := NewC06(tier, "hub")
	inB, inQ := hub.New(), hub.New()
	gen := c06SharedGenesis(c)
	// pre-states: genesis; a transfer waiting in the pool
	inB.InitGenesis(gen)
	inB.NextBlock(5)
	pres := []*hub.Snapshot{inB.Snapshot()}
	preNames := []string{"after genesis"}
	g0 := &c06Ghost{Ev: map[string]uint64{}}
	c.apply(inB, g0, engine.OpN("Send", "ethereum", "hub"))
	inB.NextBlock(5)
	pres = append(pres, inB.Snapshot())
	preNames = append(preNames, "a transfer pending")
	// ... and one block later (automatic batching runs at even heights, the expiry sweep only finds unbatched transfers)
	inB.NextBlock(5)
	c.apply(inB, g0, engine.OpN("Send", "minter", "eth"))
	pres = append(pres, inB.Snapshot())
	preNames = append(preNames, "one transfer in a batch, one sent in the open even-height block")
	ops := []engine.Op{engine.OpN("Send", "ethereum", "hub"), engine.OpN("Dep", "ethereum"), engine.OpN("Next"), engine.OpN("NextLong"), engine.OpN("Send", "minter", "hub"),
		// the block that starts after the transfer timeout, executed to its end (the expiry sweep runs in its EndBlocker)
		engine.OpN("NextLongThenNext")}
	type query struct {
		name string
		run  func(in *hub.Instance) string
	}
	queries := []query{
		{"DiscountForHolder(user)", func(in *hub.Instance) string {
			r, err := in.Hub.DiscountForHolder(sdk.WrapSDKContext(in.Ctx()), &mhubtypes.DiscountForHolderRequest{Address: c.User.String()})
			return fmt.Sprint(r, err)
		}},
		{"DiscountForHolder(recipient)", func(in *hub.Instance) string {
			r, err := in.Hub.DiscountForHolder(sdk.WrapSDKContext(in.Ctx()), &mhubtypes.DiscountForHolderRequest{Address: hub.HexAddr("r")[2:]})
			return fmt.Sprint(r, err)
		}},
		{"simulation of a withdrawal of the 6-decimals token", func(in *hub.Instance) string {
			// what the Simulate endpoint does: the message runs on a branch of the committed state that is thrown away
			r := in.DeliverMsg(mhubtypes.NewMsgSendToExternal("ethereum", c.User, hub.HexAddr("r"), sdk.NewInt64Coin("hub", 777_000_000_000_000), sdk.NewInt64Coin("hub", 5_000_000_000_000)))
			return fmt.Sprint(r.OK(), c06Digest(in))
		}},
	}
	// the process environment: the same block step in a process whose local time zone is UTC and in one three hours east
	// of it (time.Unix, Time.Local, Time.Format and Time.String read time.Local implicitly)
	saved := time.Local
	for pi, pre := range pres {
		for _, op := range ops {
			var digests []string
			for _, zone := range []*time.Location{time.UTC, time.FixedZone("east", 3*3600), time.FixedZone("west", -5*3600-1800)} {
				time.Local = zone
				inB.Restore(pre)
				inB.Events = nil
				if c06ApplySeq(c, inB, &c06Ghost{Ev: map[string]uint64{"ethereum": 0}}, op) {
					break
				}
				digests = append(digests, c06Digest(inB))
				res.ZoneRuns++
			}
			time.Local = saved
			for _, d := range digests {
				if d != digests[0] && res.Violation == nil {
					res.Violation = &engine.Violation{Property: "C06", Rule: "nondeterministic_result_depends_on_the_process_time_zone", Site: op.Kind,
						Detail: fmt.Sprintf("pre-state %q, block step %s: state and events digest %s with local time zone UTC, %s with another zone", preNames[pi], op, digests[0], d)}
				}
			}
		}
	}
	if res.Violation != nil {
		goto out
	}
	for pi, pre := range pres {
		for _, op := range ops {
			for _, q := range queries {
				res.Pairs++
				// serial references
				inB.Restore(pre)
				inB.Events = nil
				gB := &c06Ghost{Ev: map[string]uint64{"ethereum": 0}}
				if c06ApplySeq(c, inB, gB, op) {
					continue
				}
				refB := c06Digest(inB)
				inQ.Restore(pre)
				inQ.Events = nil
				refQ := q.run(inQ)
				exec := func(start int, plan []int) (*coSched, string, string, bool) {
					inB.Restore(pre)
					inB.Events = nil
					inQ.Restore(pre)
					inQ.Events = nil
					s := &coSched{plan: plan, start: start}
					var gotQ string
					ok := s.run([2]func(){
						func() { c06ApplySeq(c, inB, &c06Ghost{Ev: map[string]uint64{"ethereum": 0}}, op) },
						func() { gotQ = q.run(inQ) },
					})
					res.Schedules++
					return s, c06Digest(inB), gotQ, ok
				}
				var explore func(start int, plan []int, preempts int)
				explore = func(start int, plan []int, preempts int) {
					if res.Violation != nil {
						return
					}
					s, dB, gQ, ok := exec(start, plan)
					if !ok {
						res.Stuck++
						return
					}
					desc := func() string {
						var sw []string
						for i, x := range plan {
							if x == 1 && i < len(s.log) {
								sw = append(sw, fmt.Sprintf("point %d (thread %s at %s)", i, []string{"block", "query"}[s.log[i].Thread], shortName(s.log[i].Name)))
							}
						}
						return fmt.Sprintf("pre-state %q, block step %s || %s, %s starts, switches at %s", preNames[pi], op, q.name, []string{"the block", "the query"}[start], strings.Join(sw, ", "))
					}
					if s.panics[0] != nil || s.panics[1] != nil || dB != refB || gQ != refQ {
						// the same schedule must fail every time before it is believed
						s2, dB2, gQ2, _ := exec(start, plan)
						if len(s2.log) == len(s.log) && dB2 == dB && gQ2 == gQ {
							what := "the block's state and events differ from those of the block run alone"
							if dB == refB {
								what = "the query's answer differs from the one it gives alone"
							}
							if s.panics[0] != nil || s.panics[1] != nil {
								what = fmt.Sprintf("panic: %v %v", s.panics[0], s.panics[1])
							}
							site := "?"
							for i, x := range plan {
								if x == 1 && i < len(s.log) {
									site = shortName(s.log[i].Name)
								}
							}
							res.Violation = &engine.Violation{Property: "C06", Rule: "nondeterministic_result_depends_on_goroutine_interleaving", Site: site,
								Detail: fmt.Sprintf("%s: %s (block digest %s, alone %s; query %q, alone %q)", desc(), what, dB, refB, cut(gQ, 80), cut(refQ, 80))}
							res.Path = []string{desc()}
						}
						return
					}
					if len(plan) == 0 {
						res.Points += len(s.log)
						if len(s.log) > res.MaxPoints {
							res.MaxPoints = len(s.log)
						}
						for _, p := range s.log {
							res.PointNames[shortName(p.Name)]++
						}
					}
					if preempts >= res.Bound {
						return
					}
					for i := len(plan); i < len(s.log); i++ {
						if !s.log[i].Can {
							continue
						}
						child := make([]int, i+1)
						copy(child, plan)
						child[i] = 1
						explore(start, child, preempts+1)
					}
				}
				explore(0, nil, 0)
				explore(1, nil, 0)
				if res.Violation != nil {
					goto out
				}
			}
		}
	}
out:
	after := c06GlobalHashes()
	for n, h := range after {
		if before[n] != h {
			res.ChangedGlobals = append(res.ChangedGlobals, shortName(n))
		}
	}
	sort.Strings(res.ChangedGlobals)
	return res
}

func shortName(n string) string {
	return strings.TrimPrefix(n, "github.com/MinterTeam/mhub2/module/")
}

func cut(s string, n int) string {
	if len(s) > n {
		return s[:n] + "..."
	}
	return s
}


// c06ApplySeq: the block steps of this phase; one of them is two operations long.
func c06ApplySeq(c *C06, in *hub.Instance, g *c06Ghost, op engine.Op) bool {
	if op.Kind == "NextLongThenNext" {
		return c.apply(in, g, engine.OpN("NextLong")) || c.apply(in, g, engine.OpN("Next"))
	}
	return c.apply(in, g, op)
}
