#!/bin/bash
# usage: tools/seed/regress.sh [ids...] — applies every kept seeded change (seeded/<id>/patch.diff) to /repo in turn,
# runs the quick checks listed in its meta.json "caught_by", reverts, and reports any that is no longer caught.
cd /verif
ids=${@:-$(ls seeded | grep -v '\.md$')}
fail=0
for id in $ids; do
  checks=$(python3 -c "import json;print(' '.join(json.load(open('seeded/$id/meta.json'))['caught_by']))")
  out=$(tools/seed/run.sh /verif/seeded/$id/patch.diff $checks 2>&1)
  for c in $checks; do
    if echo "$out" | grep -q "^$c rc=1"; then echo "$id caught by $c"; else echo "$id NOT CAUGHT by $c: $(echo "$out" | grep "^$c" | cut -c1-120)"; fail=1; fi
  done
done
git -C /repo status --short | head -3
exit $fail
