package scen

import (
	"bytes"
	"encoding/hex"
	"fmt"
	"math/big"
	"sort"
	"strings"
	"time"

	sdk "github.com/cosmos/cosmos-sdk/types"
	"github.com/ethereum/go-ethereum/common"

	"verifmc/engine"
	"verifmc/evmhost"
	"verifmc/hub"

	mhubtypes "github.com/MinterTeam/mhub2/module/x/mhub2/types"
	oracletypes "github.com/MinterTeam/mhub2/module/x/oracle/types"
)

// C08: what the hub emits is executable on the external chain, and the loop
// hub -> signatures -> contract -> events -> hub stays in step.
//
// The external chain is the REAL compiled Hub2 contract (module/solidity/Hub2.go) plus two ERC-20s on
// go-ethereum's in-memory EVM. The hub is the real keeper. Validators confirm through
// MsgSubmitExternalTxConfirmation what the real Unsigned* queries list for them; the relayer works like
// orchestrator/relayer: "current contract set" = the hub's LastObservedSignerSetTx, signatures come from
// the real *Confirmations queries (remembered once seen), ordered by that set, v=0 where missing. Events
// emitted by the contract are decoded from its logs and voted by every bonded validator.

const c08Threshold = 2834678415 // solidity/contract-deployer.ts: 66% of 2^32

type c08Tx struct {
	Kind    string // "set" | "batch"
	Nonce   uint64
	Token   string
	Timeout uint64
	Addrs   []string
	Powers  []uint64
	Amounts []string
	Fees    []string
	Dests   []string
	Sigs    map[string]string // external address (hex) -> signature (hex)
}

func (t *c08Tx) id() string {
	if t.Kind == "set" {
		return fmt.Sprintf("set:%d", t.Nonce)
	}
	return fmt.Sprintf("batch:%s:%d", t.Token, t.Nonce)
}

type c08Ghost struct {
	Cache    map[string]*c08Tx // relayer memory of everything the hub ever offered, with the confirmations seen
	Reported uint64            // last contract event nonce that was claimed to the hub
	Voted    bool              // claims cast in the open block (they are applied at its EndBlock)
	Done     map[string]bool   // tx ids the contract executed
	DBonded  bool
}

func (g *c08Ghost) clone() *c08Ghost {
	n := &c08Ghost{Cache: map[string]*c08Tx{}, Reported: g.Reported, Voted: g.Voted, Done: cloneB(g.Done), DBonded: g.DBonded}
	for k, t := range g.Cache {
		c := *t
		c.Sigs = map[string]string{}
		for a, s := range t.Sigs {
			c.Sigs[a] = s
		}
		n.Cache[k] = &c
	}
	return n
}

func (g *c08Ghost) canon() string {
	var ks []string
	for k, t := range g.Cache {
		var as []string
		for a := range t.Sigs {
			as = append(as, a[2:6])
		}
		sort.Strings(as)
		ks = append(ks, k+"["+strings.Join(as, ",")+"]")
	}
	sort.Strings(ks)
	return fmt.Sprintf("%s|%d|%v|%s", strings.Join(ks, ";"), g.Reported, g.Voted, canonMap(g.Done))
}

type c08State struct {
	Snap *hub.Snapshot
	EVM  *evmhost.Host
	G    *c08Ghost
	key  string
}

func (s *c08State) Key() string {
	if s.key == "" {
		s.key = s.Snap.Digest() + "|" + s.EVM.Root() + "|" + s.G.canon()
	}
	return s.key
}

type C08 struct {
	Vals   []hub.Validator // A, B, C registered on ethereum; D has no ethereum key and starts unbonded
	Powers []int64
	DPower int64
	User   sdk.AccAddress
	Toks   []common.Address
	Gid    [32]byte
	SeedOps [][]engine.Op
	Jail    bool // validator B can be jailed
}

// in2: B is still bonded and not jailed
func in2(s *c08State) bool {
	v := s.Snap.Staking[1]
	return v.Bonded && !v.Jailed
}

func NewC08(powers []int64, dPower int64, seeds [][]engine.Op) *C08 {
	c := &C08{Powers: powers, DPower: dPower, User: hub.User("u1"), Toks: []common.Address{evmhost.TokenAddress(0), evmhost.TokenAddress(1)}, SeedOps: seeds}
	for i := 0; i < 4; i++ {
		c.Vals = append(c.Vals, hub.NewValidator(string(rune('A'+i))))
	}
	copy(c.Gid[:], "defaultgravityid")
	return c
}

func (c *C08) ID() string { return "C08" }

type c08Worker struct{ in *hub.Instance }

func (c *C08) NewWorker() engine.Worker { return &c08Worker{in: hub.New()} }

func (c *C08) denom(i int) string { return []string{"toka", "tokb"}[i] }

func (c *C08) genesis() hub.Genesis {
	bal := sdk.Coins{}
	g := StdGenesis(c.Vals, append(append([]int64{}, c.Powers...), 0), []sdk.AccAddress{c.User}, bal)
	g.Staking[3].Power = c.DPower
	// D has no external key on ethereum (and none elsewhere)
	for _, es := range g.Hub.ExternalStates {
		var keep []*mhubtypes.MsgDelegateKeys
		for _, dk := range es.DelegateKeys {
			if dk.ValidatorAddress != c.Vals[3].Oper.String() {
				keep = append(keep, dk)
			}
		}
		es.DelegateKeys = keep
	}
	var infos []*mhubtypes.TokenInfo
	for i, t := range c.Toks {
		infos = append(infos, &mhubtypes.TokenInfo{Id: uint64(i + 1), Denom: c.denom(i), ChainId: "ethereum", ExternalTokenId: t.Hex(), ExternalDecimals: 18, Commission: sdk.ZeroDec()})
	}
	g.Hub.TokenInfos = &mhubtypes.TokenInfos{TokenInfos: infos}
	var pl []*oracletypes.Price
	for i, n := range []string{"eth", "ethereum/gas", "bnb", "bsc/gas", "hub", "toka", "tokb"} {
		pl = append(pl, &oracletypes.Price{Name: n, Value: sdk.NewDec(int64(3 + i))})
	}
	g.Oracle.Prices = &oracletypes.Prices{List: pl}
	return g
}

// ---------------------------------------------------------------------------------------------
// building blocks

func (c *C08) bondedKeyed(in *hub.Instance) []hub.Validator {
	var out []hub.Validator
	for i, v := range c.Vals[:3] {
		if in.Staking.Vals[i].Bonded {
			out = append(out, v)
		}
	}
	return out
}

func (c *C08) vote(in *hub.Instance, g *c08Ghost, ev mhubtypes.ExternalEvent, st *engine.Step) {
	for i, v := range c.bondedKeyed(in) {
		claim := ev
		if sse, ok := ev.(*mhubtypes.SignerSetTxExecutedEvent); ok {
			// every orchestrator builds its own claim; the first one to arrive lists the members back to front (the claim
			// id does not depend on the member order: it is the same claim)
			cp := *sse
			cp.Members = nil
			for _, m := range sse.Members {
				mm := *m
				cp.Members = append(cp.Members, &mm)
			}
			if i == 0 {
				for a, b := 0, len(cp.Members)-1; a < b; a, b = a+1, b-1 {
					cp.Members[a], cp.Members[b] = cp.Members[b], cp.Members[a]
				}
			}
			claim = &cp
		}
		if r := in.DeliverMsg(hub.EventMsg(v.Orch, "ethereum", claim)); !r.OK() {
			st.Count("claims_rejected", 1)
		}
	}
	if ev.GetEventNonce() > g.Reported {
		g.Reported = ev.GetEventNonce()
	}
	g.Voted = true
}

// feedback turns the contract's logs into the claims an orchestrator makes (orchestrator/cosmos_gravity/src/build.rs).
func (c *C08) feedback(in *hub.Instance, evm *evmhost.Host, g *c08Ghost, logs []evmhost.Log, st *engine.Step) {
	for _, l := range logs {
		n := l.Values["_eventNonce"].(*big.Int).Uint64()
		txh := fmt.Sprintf("0xevm%d", n)
		switch l.Name {
		case "ValsetUpdatedEvent":
			var members []*mhubtypes.ExternalSigner
			vs := l.Values["_validators"].([]common.Address)
			ps := l.Values["_powers"].([]*big.Int)
			for i := range vs {
				members = append(members, &mhubtypes.ExternalSigner{Power: ps[i].Uint64(), ExternalAddress: vs[i].Hex()})
			}
			c.vote(in, g, &mhubtypes.SignerSetTxExecutedEvent{EventNonce: n, SignerSetTxNonce: new(big.Int).SetBytes(l.Topics[1].Bytes()).Uint64(), ExternalHeight: evm.Block, Members: members, TxHash: txh}, st)
		case "TransactionBatchExecutedEvent":
			c.vote(in, g, &mhubtypes.BatchExecutedEvent{ExternalCoinId: common.BytesToAddress(l.Topics[2].Bytes()).Hex(), EventNonce: n, ExternalHeight: evm.Block,
				BatchNonce: new(big.Int).SetBytes(l.Topics[1].Bytes()).Uint64(), TxHash: txh, FeePaid: sdk.NewInt(1), FeePayer: evm.Origin.Hex()}, st)
		case "TransferToChainEvent":
			dest := l.Values["_destination"].([32]byte)
			c.vote(in, g, &mhubtypes.TransferToChainEvent{EventNonce: n, ExternalCoinId: common.BytesToAddress(l.Topics[1].Bytes()).Hex(), Amount: sdk.NewIntFromBigInt(l.Values["_amount"].(*big.Int)),
				Fee: sdk.NewIntFromBigInt(l.Values["_fee"].(*big.Int)), Sender: common.BytesToAddress(l.Topics[2].Bytes()).Hex(), ReceiverChainId: strings.TrimRight(string(l.Topics[3].Bytes()), "\x00"),
				ExternalReceiver: "0x" + hex.EncodeToString(dest[12:]), ExternalHeight: evm.Block, TxHash: txh}, st)
		}
		st.Count("contract_events_fed_back", 1)
	}
}

// refresh: the relayer polls the hub (real queries) and remembers every outgoing tx and confirmation it sees.
func (c *C08) refresh(in *hub.Instance, g *c08Ghost, sts ...*engine.Step) {
	// a confirmation the hub served once is served for as long as the hub keeps the transaction: a relayer that
	// collects signatures when it relays (orchestrator/relayer does) depends on it
	served := func(t *c08Tx, old *c08Tx, now map[string]bool) {
		if old == nil || len(sts) == 0 {
			return
		}
		for a := range old.Sigs {
			if !now[a] {
				c.bad(sts[0], "recorded_confirmation_no_longer_served", map[string]string{"set": "SignerSetTxConfirmations", "batch": "BatchTxConfirmations"}[t.Kind],
					"%s is still stored by the hub and the confirmation of %s was served earlier; the confirmations query no longer lists it", t.id(), a)
			}
		}
	}
	ctx := in.Ctx()
	w := sdk.WrapSDKContext(ctx)
	if r, err := in.Hub.SignerSetTxs(w, &mhubtypes.SignerSetTxsRequest{ChainId: "ethereum"}); err == nil {
		for _, ss := range r.SignerSets {
			t := &c08Tx{Kind: "set", Nonce: ss.Nonce, Sigs: map[string]string{}}
			for _, m := range ss.Signers {
				t.Addrs, t.Powers = append(t.Addrs, m.ExternalAddress), append(t.Powers, m.Power)
			}
			if old := g.Cache[t.id()]; old != nil {
				t.Sigs = old.Sigs
			}
			now := map[string]bool{}
			if cr, err := in.Hub.SignerSetTxConfirmations(w, &mhubtypes.SignerSetTxConfirmationsRequest{SignerSetNonce: ss.Nonce, ChainId: "ethereum"}); err == nil {
				for _, s := range cr.Signatures {
					t.Sigs[common.HexToAddress(s.ExternalSigner).Hex()] = hex.EncodeToString(s.Signature)
					now[common.HexToAddress(s.ExternalSigner).Hex()] = true
				}
			}
			served(t, g.Cache[t.id()], now)
			g.Cache[t.id()] = t
		}
	}
	if r, err := in.Hub.BatchTxs(w, &mhubtypes.BatchTxsRequest{ChainId: "ethereum"}); err == nil {
		for _, b := range r.Batches {
			t := &c08Tx{Kind: "batch", Nonce: b.BatchNonce, Token: b.ExternalTokenId, Timeout: b.Timeout, Sigs: map[string]string{}}
			for _, x := range b.Transactions {
				t.Amounts, t.Fees, t.Dests = append(t.Amounts, x.Token.Amount.String()), append(t.Fees, x.Fee.Amount.String()), append(t.Dests, x.ExternalRecipient)
			}
			if old := g.Cache[t.id()]; old != nil {
				t.Sigs = old.Sigs
			}
			now := map[string]bool{}
			if cr, err := in.Hub.BatchTxConfirmations(w, &mhubtypes.BatchTxConfirmationsRequest{BatchNonce: b.BatchNonce, ExternalTokenId: b.ExternalTokenId, ChainId: "ethereum"}); err == nil {
				for _, s := range cr.Signatures {
					t.Sigs[common.HexToAddress(s.ExternalSigner).Hex()] = hex.EncodeToString(s.Signature)
					now[common.HexToAddress(s.ExternalSigner).Hex()] = true
				}
			}
			served(t, g.Cache[t.id()], now)
			g.Cache[t.id()] = t
		}
	}
}

// confirm: validator v signs everything the hub lists as unsigned for its orchestrator (real queries).
func (c *C08) confirm(in *hub.Instance, v hub.Validator, st *engine.Step) int {
	ctx := in.Ctx()
	w := sdk.WrapSDKContext(ctx)
	gid := []byte(in.Hub.GetParams(ctx).GravityId)
	n := 0
	if r, err := in.Hub.UnsignedSignerSetTxs(w, &mhubtypes.UnsignedSignerSetTxsRequest{Address: v.Orch.String(), ChainId: "ethereum"}); err == nil {
		for _, ss := range r.SignerSets {
			sig, _ := mhubtypes.NewEthereumSignature(ss.GetCheckpoint(gid), v.EthKey)
			if in.DeliverMsg(hub.ConfirmMsg(v.Orch, "ethereum", &mhubtypes.SignerSetTxConfirmation{SignerSetNonce: ss.Nonce, ExternalSigner: v.Eth.Hex(), Signature: sig})).OK() {
				n++
			}
		}
	}
	if r, err := in.Hub.UnsignedBatchTxs(w, &mhubtypes.UnsignedBatchTxsRequest{Address: v.Orch.String(), ChainId: "ethereum"}); err == nil {
		for _, b := range r.Batches {
			sig, _ := mhubtypes.NewEthereumSignature(b.GetCheckpoint(gid), v.EthKey)
			if in.DeliverMsg(hub.ConfirmMsg(v.Orch, "ethereum", &mhubtypes.BatchTxConfirmation{ExternalTokenId: b.ExternalTokenId, BatchNonce: b.BatchNonce, ExternalSigner: v.Eth.Hex(), Signature: sig})).OK() {
				n++
			}
		}
	}
	st.Count("confirmations_recorded", n)
	return n
}

func (c *C08) contractU(evm *evmhost.Host, method string, args ...interface{}) *big.Int {
	r, err := evm.View(method, args...)
	if err != nil || len(r) == 0 {
		panic(fmt.Sprint("view ", method, ": ", err))
	}
	return r[0].(*big.Int)
}

// ---------------------------------------------------------------------------------------------
// seeds / alphabet

func (c *C08) build(w *c08Worker, seed int, ops []engine.Op) (*c08State, []engine.Step) {
	in := w.in
	in.InitGenesis(c.genesis())
	// deploy as solidity/contract-deployer.ts does: the hub's latest signer set becomes valset #0
	ss := in.Hub.GetLatestSignerSetTx(in.Ctx(), "ethereum")
	if ss == nil {
		panic("no signer set after genesis")
	}
	var addrs []common.Address
	var pws []*big.Int
	for _, m := range ss.Signers {
		addrs, pws = append(addrs, common.HexToAddress(m.ExternalAddress)), append(pws, new(big.Int).SetUint64(m.Power))
	}
	evm, err := evmhost.New(c.Gid, big.NewInt(c08Threshold), addrs, pws)
	if err != nil {
		panic(err)
	}
	if evm.Token != c.Toks[0] || evm.Token2 != c.Toks[1] {
		panic("token addresses are not the predicted ones")
	}
	g := &c08Ghost{Cache: map[string]*c08Tx{}, Done: map[string]bool{}}
	// the constructor emitted ValsetUpdatedEvent(0, 1, ...): the orchestrators report it
	var st0 engine.Step
	members := make([]*mhubtypes.ExternalSigner, len(ss.Signers))
	for i, m := range ss.Signers {
		members[i] = &mhubtypes.ExternalSigner{Power: m.Power, ExternalAddress: m.ExternalAddress}
	}
	c.vote(in, g, &mhubtypes.SignerSetTxExecutedEvent{EventNonce: 1, SignerSetTxNonce: 0, ExternalHeight: evm.Block, Members: members, TxHash: "0xdeploy"}, &st0)
	if p := in.NextBlock(5); p != nil {
		panic(p)
	}
	g.Voted = false
	c.refresh(in, g)
	s := &c08State{Snap: in.Snapshot(), EVM: evm, G: g}
	var steps []engine.Step
	for _, op := range append(append([]engine.Op{}, c.SeedOps[seed]...), ops...) {
		st := c.apply(w, s, op)
		steps = append(steps, st)
		if st.Next == nil {
			return nil, steps
		}
		s = st.Next.(*c08State)
	}
	return s, steps
}

func (c *C08) Seeds(w engine.Worker) []engine.State {
	var out []engine.State
	for i := range c.SeedOps {
		s, _ := c.build(w.(*c08Worker), i, nil)
		if s == nil {
			panic(fmt.Sprintf("C08 seed %d cannot be built", i))
		}
		out = append(out, s)
	}
	return out
}

func (c *C08) Replay(w engine.Worker, seed int, ops []engine.Op) (engine.State, []engine.Step) {
	s, steps := c.build(w.(*c08Worker), seed, ops)
	n := len(c.SeedOps[seed])
	if len(steps) >= n {
		steps = steps[n:]
	}
	if s == nil {
		return nil, steps
	}
	return s, steps
}

func (c *C08) Ops(st engine.State) []engine.Op {
	s := st.(*c08State)
	g := s.G
	ops := []engine.Op{engine.OpN("Next"), engine.OpN("ConfirmAll"), engine.OpN("Confirm", 0), engine.OpN("Confirm", 1)}
	// relay candidates: everything remembered that the contract has not executed
	var ids []string
	for id := range g.Cache {
		if !g.Done[id] {
			ids = append(ids, id)
		}
	}
	sort.Strings(ids)
	for _, id := range ids {
		t := g.Cache[id]
		var signers []string
		for a := range t.Sigs {
			signers = append(signers, a)
		}
		sort.Strings(signers)
		if len(signers) == 0 {
			continue
		}
		// every non-empty subset of the confirmations seen, the full set first
		full := (1 << uint(len(signers))) - 1
		ops = append(ops, engine.OpN("Relay", id, full))
		for m := full - 1; m >= 1; m-- {
			ops = append(ops, engine.OpN("Relay", id, m))
		}
	}
	ops = append(ops, engine.OpN("Deposit", 0), engine.OpN("Deposit", 1), engine.OpN("Send", 0), engine.OpN("Send", 1))
	ops = append(ops, engine.OpN("SetPower", 0, 30), engine.OpN("SetPower", 0, 10))
	if !g.DBonded {
		ops = append(ops, engine.OpN("BondKeyless"))
	}
	if c.Jail && in2(s) {
		ops = append(ops, engine.OpN("Jail", 1))
	}
	ops = append(ops, engine.OpN("EthAdvance"))
	return ops
}

func (c *C08) Apply(w engine.Worker, st engine.State, op engine.Op) engine.Step {
	return c.apply(w.(*c08Worker), st.(*c08State), op)
}

func (c *C08) apply(w *c08Worker, s *c08State, op engine.Op) engine.Step {
	in := w.in
	in.Restore(s.Snap)
	evm := s.EVM.Copy()
	g := s.G.clone()
	var st engine.Step
	c.do(in, evm, g, op, &st)
	if st.Pruned == "" {
		st.Next = &c08State{Snap: in.Snapshot(), EVM: evm, G: g}
	}
	return st
}

func (c *C08) bad(st *engine.Step, rule, site, f string, a ...interface{}) {
	st.Violate("C08", rule, site, f, a...)
}

func (c *C08) do(in *hub.Instance, evm *evmhost.Host, g *c08Ghost, op engine.Op, st *engine.Step) {
	switch op.Kind {
	case "Next":
		voted := g.Voted
		if p := in.NextBlock(5); p != nil {
			st.Pruned = "pruned_block_failure"
			return
		}
		g.Voted = false
		c.refresh(in, g, st)
		if voted {
			c.inStep(in, evm, g, st)
		}
		st.Obs = "next"
	case "ConfirmAll":
		n := 0
		for _, v := range c.bondedKeyed(in) {
			n += c.confirm(in, v, st)
		}
		c.refresh(in, g, st)
		st.Obs = fmt.Sprint("confirmed", n)
	case "Confirm":
		v := c.Vals[op.I[0]]
		n := 0
		if in.Staking.Vals[op.I[0]].Bonded {
			n = c.confirm(in, v, st)
		}
		c.refresh(in, g, st)
		st.Obs = fmt.Sprint("confirmed", n)
	case "SetPower":
		in.ValSetPower(int(op.I[0]), op.I[1])
		st.Obs = "power"
	case "Jail":
		// B is jailed (downtime): it leaves the bonded set at this block's staking EndBlocker; what it confirmed stays
		in.ValJail(int(op.I[0]))
		st.Obs = "jailed"
	case "BondKeyless":
		in.ValRebond(3)
		g.DBonded = true
		st.Obs = "bonded"
	case "EthAdvance":
		evm.Block += 100_000
		st.Obs = "adv"
	case "Deposit":
		var dest [32]byte
		copy(dest[12:], c.User.Bytes())
		logs, err := evm.Deposit(c.Toks[op.I[0]], "hub", dest, big.NewInt(1000), big.NewInt(0))
		if err != nil {
			panic(err)
		}
		evm.Block++
		c.feedback(in, evm, g, logs, st)
		st.Count("deposits", 1)
		st.Obs = "dep"
	case "Send":
		d := c.denom(int(op.I[0]))
		r := in.DeliverMsg(mhubtypes.NewMsgSendToExternal("ethereum", c.User, hub.HexAddr("rcpt"), sdk.NewInt64Coin(d, 300), sdk.NewInt64Coin(d, 0)))
		st.Obs = fmt.Sprint(r.OK())
		if r.OK() {
			st.Count("sends_ok", 1)
		}
	case "Relay":
		c.relay(in, evm, g, op, st)
	default:
		panic("unknown op " + op.Kind)
	}
}

func hexSig(s string) []byte { b, _ := hex.DecodeString(s); return b }

// relay submits one remembered hub transaction to the contract with a subset of its confirmations.
func (c *C08) relay(in *hub.Instance, evm *evmhost.Host, g *c08Ghost, op engine.Op, st *engine.Step) {
	t := g.Cache[op.S[0]]
	if t == nil {
		st.Obs = "unknown"
		return
	}
	var signers []string
	for a := range t.Sigs {
		signers = append(signers, a)
	}
	sort.Strings(signers)
	chosen := map[string]bool{}
	for i, a := range signers {
		if op.I[0]&(1<<uint(i)) != 0 {
			chosen[a] = true
		}
	}
	// the relayer's idea of the contract's current set: the hub's last observed signer set (relayer/src/find_latest_valset.rs)
	cur := in.Hub.GetLastObservedSignerSetTx(in.Ctx(), "ethereum")
	if cur == nil {
		st.Obs = "no-observed-set"
		return
	}
	var curAddrs []common.Address
	var curPows []*big.Int
	var vs []uint8
	var rs, ss [][32]byte
	power := new(big.Int)
	total := new(big.Int)
	all := true
	for _, m := range cur.Signers {
		a := common.HexToAddress(m.ExternalAddress)
		curAddrs, curPows = append(curAddrs, a), append(curPows, new(big.Int).SetUint64(m.Power))
		total.Add(total, new(big.Int).SetUint64(m.Power))
		if sg, ok := t.Sigs[a.Hex()]; ok && chosen[a.Hex()] {
			v, r, s := vrs(hexSig(sg))
			vs, rs, ss = append(vs, v), append(rs, r), append(ss, s)
			power.Add(power, new(big.Int).SetUint64(m.Power))
		} else {
			vs, rs, ss = append(vs, 0), append(rs, [32]byte{}), append(ss, [32]byte{})
			all = false
		}
	}
	curNonce := new(big.Int).SetUint64(cur.Nonce)
	thr := big.NewInt(c08Threshold)
	// does the hub's observed set match what the contract holds? (otherwise every submission reverts)
	cpHub := (&mhubtypes.SignerSetTx{Nonce: cur.Nonce, Signers: cur.Signers}).GetCheckpoint(c.Gid[:16])
	cpRes, _ := evm.View("state_lastValsetCheckpoint")
	cpEth := cpRes[0].([32]byte)
	inSync := bytes.Equal(cpHub, cpEth[:])

	var logs []evmhost.Log
	var ret []byte
	var err error
	expect := false
	site := ""
	switch t.Kind {
	case "set":
		var na []common.Address
		var np []*big.Int
		newTotal := new(big.Int)
		for i := range t.Addrs {
			na, np = append(na, common.HexToAddress(t.Addrs[i])), append(np, new(big.Int).SetUint64(t.Powers[i]))
			newTotal.Add(newTotal, np[i])
		}
		site = "Hub2.updateValset"
		expect = inSync && t.Nonce > cur.Nonce && power.Cmp(thr) > 0
		logs, ret, err = evm.CallLogs(evm.Origin, "updateValset", na, np, new(big.Int).SetUint64(t.Nonce), curAddrs, curPows, curNonce, vs, rs, ss)
		if err == nil && newTotal.Cmp(thr) <= 0 {
			c.bad(st, "accepted_signer_set_cannot_reach_threshold", "CurrentSignerSet", "the contract now holds hub signer set %d whose powers add up to %s, not above its threshold %s: nothing the hub emits can execute any more", t.Nonce, newTotal, thr)
		}
	case "batch":
		var am, fe []*big.Int
		var de []common.Address
		sum := new(big.Int)
		for i := range t.Amounts {
			a, _ := new(big.Int).SetString(t.Amounts[i], 10)
			f, _ := new(big.Int).SetString(t.Fees[i], 10)
			am, fe, de = append(am, a), append(fe, f), append(de, common.HexToAddress(t.Dests[i]))
			sum.Add(sum, a)
		}
		tok := common.HexToAddress(t.Token)
		last := c.contractU(evm, "lastBatchNonce", tok)
		site = "Hub2.submitBatch"
		funded := evm.BalanceOf(tok, evm.Hub).Cmp(sum) >= 0
		expect = inSync && new(big.Int).SetUint64(t.Nonce).Cmp(last) > 0 && evm.Block < t.Timeout && power.Cmp(thr) > 0 && funded
		if !funded {
			c.bad(st, "hub_batch_exceeds_contract_balance", "BuildBatchTx", "batch %s pays out %s but the contract holds %s", t.id(), sum, evm.BalanceOf(tok, evm.Hub))
		}
		logs, ret, err = evm.CallLogs(evm.Origin, "submitBatch", curAddrs, curPows, curNonce, vs, rs, ss, am, de, fe, new(big.Int).SetUint64(t.Nonce), tok, new(big.Int).SetUint64(t.Timeout))
		if err == nil {
			// the hub must still regard this batch as pending: it may withdraw only what cannot execute any more
			pending := false
			in.Hub.IterateOutgoingTxsByType(in.Ctx(), "ethereum", mhubtypes.BatchTxPrefixByte, func(_ []byte, o mhubtypes.OutgoingTx) bool {
				b := o.(*mhubtypes.BatchTx)
				if b.BatchNonce == t.Nonce && strings.EqualFold(b.ExternalTokenId, t.Token) {
					pending = true
				}
				return false
			})
			if !pending {
				c.bad(st, "contract_executes_batch_the_hub_withdrew", "CancelBatchTx", "the contract accepted batch %s (confirmed by %s of power, nonce above the token's last %s, height %d < timeout %d) although the hub no longer holds it as pending", t.id(), power, last, evm.Block, t.Timeout)
			}
		}
	}
	accepted := err == nil
	reason := ""
	if !accepted {
		reason = evmhost.RevertReason(ret)
	}
	st.Obs = fmt.Sprintf("%s accepted=%v expect=%v", t.Kind, accepted, expect)
	st.Count("relays", 1)
	switch {
	case accepted && !expect:
		c.bad(st, "contract_accepted_what_it_should_reject", site, "%s with confirmations of %s power (threshold %s), hub observed set in sync=%v: accepted", t.id(), power, thr, inSync)
	case !accepted && expect:
		c.bad(st, "confirmed_tx_rejected_by_contract", site+": "+reason, "%s confirmed by members holding %s of the contract's set (threshold %s), in nonce order and in time, was rejected: %s", t.id(), power, thr, reason)
	case !accepted && all && inSync && (t.Kind == "set" && t.Nonce > cur.Nonce || t.Kind == "batch" && evm.Block < t.Timeout && strings.Contains(reason, "enough power")):
		// every member of the contract's current set confirmed and it still does not pass
		c.bad(st, "fully_confirmed_tx_rejected", site+": "+reason, "%s confirmed by every member of the contract's current set (their powers add up to %s, threshold %s) was rejected: %s", t.id(), total, thr, reason)
	}
	if accepted {
		st.Count("relays_accepted", 1)
		g.Done[t.id()] = true
		evm.Block++
		c.feedback(in, evm, g, logs, st)
	} else {
		st.Count("relays_rejected", 1)
	}
}

// inStep: evaluated after the EndBlock that tallies claims cast by every bonded validator.
func (c *C08) inStep(in *hub.Instance, evm *evmhost.Host, g *c08Ghost, st *engine.Step) {
	ctx := in.Ctx()
	ethNonce := c.contractU(evm, "state_lastEventNonce").Uint64()
	hubNonce := in.Hub.GetLastObservedEventNonce(ctx, "ethereum")
	if g.Reported == ethNonce && hubNonce != ethNonce {
		// all events were claimed by validators holding 100% of the keyed power
		tot, keyed := int64(0), int64(0)
		for i, v := range in.Staking.Vals {
			if v.Bonded {
				tot += v.Power
				if i < 3 {
					keyed += v.Power
				}
			}
		}
		if keyed*100 >= tot*66 {
			c.bad(st, "attested_event_not_applied", "eventVoteRecordTally", "contract event nonce %d, all claimed, hub observed nonce %d", ethNonce, hubNonce)
		}
		return
	}
	if g.Reported != ethNonce || hubNonce != ethNonce {
		return
	}
	st.Count("in_step_checks", 1)
	// signer sets
	cur := in.Hub.GetLastObservedSignerSetTx(ctx, "ethereum")
	cpRes, _ := evm.View("state_lastValsetCheckpoint")
	cpEth := cpRes[0].([32]byte)
	if cur == nil || !bytes.Equal((&mhubtypes.SignerSetTx{Nonce: cur.Nonce, Signers: cur.Signers}).GetCheckpoint(c.Gid[:16]), cpEth[:]) {
		c.bad(st, "hub_observed_signer_set_differs_from_contract", "Handle(SignerSetTxExecutedEvent)", "hub observed set %v does not hash to the contract's checkpoint %x", cur, cpEth[:8])
	}
	if cur != nil && cur.Nonce != c.contractU(evm, "state_lastValsetNonce").Uint64() {
		c.bad(st, "signer_set_nonces_out_of_step", "Handle(SignerSetTxExecutedEvent)", "hub observed set nonce %d, contract %s", cur.Nonce, c.contractU(evm, "state_lastValsetNonce"))
	}
	// batches and balances, per token
	for i, tok := range c.Toks {
		last := c.contractU(evm, "lastBatchNonce", tok).Uint64()
		liab := in.Bank.GetSupply(ctx, c.denom(i)).Amount.BigInt()
		liab.Sub(liab, in.Bank.GetBalance(ctx, hub.ModuleAddr, c.denom(i)).Amount.BigInt())
		liab.Sub(liab, in.Bank.GetBalance(ctx, mhubtypes.TempAddress, c.denom(i)).Amount.BigInt())
		in.Hub.IterateUnbatchedSendToExternals(ctx, "ethereum", func(e *mhubtypes.SendToExternal) bool {
			if strings.EqualFold(e.Token.ExternalTokenId, tok.Hex()) {
				liab.Add(liab, e.Token.Amount.Add(e.Fee.Amount).Add(e.ValCommission.Amount).BigInt())
			}
			return false
		})
		in.Hub.IterateOutgoingTxsByType(ctx, "ethereum", mhubtypes.BatchTxPrefixByte, func(_ []byte, o mhubtypes.OutgoingTx) bool {
			b := o.(*mhubtypes.BatchTx)
			if !strings.EqualFold(b.ExternalTokenId, tok.Hex()) {
				return false
			}
			if b.BatchNonce <= last {
				c.bad(st, "hub_keeps_batch_the_contract_can_no_longer_execute", "batchTxExecuted", "batch %d of %s still pending, contract's last executed nonce for the token is %d", b.BatchNonce, tok.Hex(), last)
			}
			for _, e := range b.Transactions {
				liab.Add(liab, e.Token.Amount.Add(e.Fee.Amount).Add(e.ValCommission.Amount).BigInt())
			}
			return false
		})
		bal := evm.BalanceOf(tok, evm.Hub)
		if liab.Cmp(bal) != 0 {
			c.bad(st, "balances_out_of_step", "token "+c.denom(i), "hub supply + pending withdrawals of %s = %s, contract holds %s", c.denom(i), liab, bal)
		}
	}
}

// ---------------------------------------------------------------------------------------------

var (
	c08SeedBatches = []engine.Op{engine.OpN("Deposit", 0), engine.OpN("Deposit", 1), engine.OpN("Next"), engine.OpN("Send", 0), engine.OpN("Next"), engine.OpN("Next"), engine.OpN("Send", 1), engine.OpN("Next"), engine.OpN("Next"), engine.OpN("ConfirmAll")}
	c08SeedKeyless = []engine.Op{engine.OpN("BondKeyless"), engine.OpN("Next"), engine.OpN("ConfirmAll")}
	c08SeedSets    = []engine.Op{engine.OpN("ConfirmAll"), engine.OpN("SetPower", 0, 30), engine.OpN("Next"), engine.OpN("Confirm", 0), engine.OpN("Confirm", 1)}
)

func init() {
	c08base := MultiRunner0(func(tier string) ([]engine.Scenario, []string, []engine.Config, []string) {
		d, dl := 4, 40*time.Second
		if tier == "thorough" {
			d, dl = 5, 8*time.Minute
		}
		mk := func(p []int64, dp int64, seeds ...[]engine.Op) *C08 { return NewC08(p, dp, seeds) }
		jail := mk([]int64{10, 10, 10}, 20, c08SeedBatches, c08SeedSets)
		jail.Jail = true
		scs := []engine.Scenario{
			jail,
			mk([]int64{10, 10, 10}, 20, []engine.Op{}),
			mk([]int64{10, 10, 10}, 20, c08SeedBatches),
			mk([]int64{10, 10, 10}, 20, c08SeedKeyless),
			mk([]int64{50, 30, 20}, 20, c08SeedSets),
			mk([]int64{25, 25, 50}, 60, c08SeedBatches),
		}
		names := []string{"powers [10 10 10], validator B can be jailed, from two confirmed batches / a partly confirmed signer-set update", "powers [10 10 10] from deployment", "powers [10 10 10] from two confirmed batches of different tokens", "powers [10 10 10] after a keyless validator with 40% bonded",
			"powers [50 30 20] from a partly confirmed signer-set update", "powers [25 25 50] (tie) from two confirmed batches"}
		var cfgs []engine.Config
		for range scs {
			cfgs = append(cfgs, engine.Config{MaxDepth: d, Deadline: dl, ReplayLeaf: 10})
		}
		return scs, names, cfgs, []string{
			"external chain = the compiled Hub2 bytecode of module/solidity/Hub2.go and two ERC-20s (WETH9 bytecode) on go-ethereum's in-memory EVM, deployed like solidity/contract-deployer.ts (hub's latest set as valset 0, threshold 2834678415)",
			"validators confirm what the real Unsigned* queries list; the relayer uses the hub's LastObservedSignerSetTx as the contract's current set and the real *Confirmations queries (remembering what it has seen), any non-empty subset of confirmations, any remembered set/batch; contract events are decoded from the EVM logs and claimed by every bonded validator with a key",
			"one hub user, deposits of 1000 and withdrawals of 300 (no bridge fee, no commission, 18 decimals) so that hub liabilities and contract balances must be equal whenever every contract event has been applied",
			"the Minter multisig side of C08 is not executed (the Minter node is not in this repository); batch/valset confirmation attribution for Minter is covered by C16's query checks",
			"admission grid: the hub refuses a withdrawal to the zero address (the ERC-20s built on the common libraries revert on such a transfer, and the whole batch with it; the WETH9 token of this harness does not, so the EVM cannot show it); every spelling of those 20 bytes that is an admissible address must be refused like the canonical one",
		}
	})
	Register("C08", func(tier string) *Runner {
		b := c08base(tier)
		return &Runner{Replay: b.Replay, Run: func(o RunOpts) Output {
			out := b.Run(o)
			n, bad := c08AdmissionGrid()
			if cov, ok := out.Evidence["coverage"].(map[string]interface{}); ok {
				cov["admission_grid_cases"] = n
			}
			if len(out.Violations) == 0 && out.InternalError == "" {
				for _, v := range bad {
					out.Violations = append(out.Violations, engine.Found{Violation: v, Reproduced: 5})
				}
			}
			out.Summary += fmt.Sprintf(" admission_grid=%d", n)
			return out
		}}
	})
}

// c08AdmissionGrid: what the hub refuses to send out in one spelling it refuses in every spelling.
func c08AdmissionGrid() (int, []engine.Violation) {
	var bad []engine.Violation
	n := 0
	zeros := []string{"0x" + strings.Repeat("0", 40), "0X" + strings.Repeat("0", 40)}
	user := hub.User("c08-admission")
	for _, chain := range []string{"ethereum", "bsc"} {
		canon := mhubtypes.NewMsgSendToExternal(mhubtypes.ChainID(chain), user, zeros[0], sdk.NewInt64Coin("hub", 300), sdk.NewInt64Coin("hub", 1))
		canon.ExternalRecipient = zeros[0]
		refused := canon.ValidateBasic() != nil
		for _, z := range zeros[1:] {
			m := *canon
			m.ExternalRecipient = z
			n++
			if refused && m.ValidateBasic() == nil {
				bad = append(bad, engine.Violation{Property: "C08", Rule: "withdrawal_to_the_zero_address_admitted", Site: "MsgSendToExternal.ValidateBasic",
					Detail: fmt.Sprintf("a withdrawal to %s on %s is refused, the same address spelled %s is admitted: it is batched, and a token that reverts on transfers to the zero address reverts the whole batch every time it is relayed", zeros[0], chain, z)})
			}
		}
		ev := func(r string) *mhubtypes.TransferToChainEvent {
			return &mhubtypes.TransferToChainEvent{EventNonce: 1, ExternalCoinId: "1", Amount: sdk.NewInt(1000), Fee: sdk.NewInt(1), Sender: hub.HexAddr("c08s"), ReceiverChainId: chain, ExternalReceiver: r, ExternalHeight: 10, TxHash: "0xc08"}
		}
		refusedEv := ev(zeros[0]).Validate("minter") != nil
		for _, z := range zeros[1:] {
			n++
			if refusedEv && ev(z).Validate("minter") == nil {
				bad = append(bad, engine.Violation{Property: "C08", Rule: "withdrawal_to_the_zero_address_admitted", Site: "TransferToChainEvent.Validate",
					Detail: fmt.Sprintf("a transfer from Minter to %s on %s is refused, the same address spelled %s is admitted", zeros[0], chain, z)})
			}
		}
	}
	return n, bad
}
