// hubmc runs one property scenario and writes its evidence file.
//
//	hubmc run <Cxx> -tier quick|thorough -evidence <file> -known <file> -replays <dir>
//	hubmc replay <file>
package main

import (
	"encoding/json"
	"flag"
	"fmt"
	"os"
	"path/filepath"
	"runtime/debug"
	"runtime/pprof"
	"sort"
	"strings"
	"time"

	"verifmc/engine"
	"verifmc/scen"
)

type knownFile struct {
	Findings []struct {
		Property  string `json:"property"`
		Signature string `json:"signature"`
		What      string `json:"what"`
	} `json:"findings"`
	Fixed []string `json:"fixed"`
}

type replayFile struct {
	Property  string           `json:"property"`
	Tier      string           `json:"tier"`
	Seed      int              `json:"seed"`
	Ops       []engine.Op      `json:"ops"`
	Violation engine.Violation `json:"violation"`
	Reproduced int             `json:"reproduced_straightline"`
}

func main() {
	debug.SetGCPercent(400)       // allocation-heavy (every store iterator allocates)
	debug.SetMemoryLimit(24 << 30) // collect harder instead of growing towards the machine's RAM
	if len(os.Args) == 2 && os.Args[1] == "list" {
		fmt.Println(strings.Join(scen.Registered(), " "))
		os.Exit(0)
	}
	if len(os.Args) < 3 {
		fmt.Fprintln(os.Stderr, "usage: hubmc run <Cxx> [flags] | hubmc replay <file>")
		os.Exit(2)
	}
	switch os.Args[1] {
	case "list":
		fmt.Println(strings.Join(scen.Registered(), " "))
		os.Exit(0)
	case "run":
		os.Exit(run(os.Args[2], os.Args[3:]))
	case "replay":
		os.Exit(replay(os.Args[2]))
	}
	os.Exit(2)
}

func loadKnown(path, prop string) (map[string]bool, map[string]string) {
	known := map[string]bool{}
	what := map[string]string{}
	if path == "" {
		return known, what
	}
	b, err := os.ReadFile(path)
	if err != nil {
		return known, what
	}
	var kf knownFile
	if err := json.Unmarshal(b, &kf); err != nil {
		fmt.Fprintln(os.Stderr, "known findings file unreadable:", err)
		os.Exit(3)
	}
	for _, f := range kf.Findings {
		if f.Property == prop {
			known[f.Property+"|"+f.Signature] = true
			what[f.Property+"|"+f.Signature] = f.What
		}
	}
	return known, what
}

func run(id string, args []string) int {
	fs := flag.NewFlagSet("run", flag.ExitOnError)
	tier := fs.String("tier", "quick", "quick|thorough")
	evPath := fs.String("evidence", "", "evidence file")
	knownPath := fs.String("known", "", "known findings file")
	replayDir := fs.String("replays", "", "directory for violation replays")
	workers := fs.Int("workers", 0, "worker goroutines")
	fs.Parse(args)

	r := scen.Lookup(id, *tier)
	if r == nil {
		fmt.Fprintln(os.Stderr, "unknown scenario", id)
		return 2
	}
	if pf := os.Getenv("HUBMC_CPUPROFILE"); pf != "" {
		f, _ := os.Create(pf)
		pprof.StartCPUProfile(f)
		defer pprof.StopCPUProfile()
	}
	known, what := loadKnown(*knownPath, id)
	start := time.Now()
	var out scen.Output
	crashed := func() (msg string) {
		defer func() {
			if x := recover(); x != nil {
				msg = fmt.Sprintf("checker panicked: %v\n%s", x, debug.Stack())
			}
		}()
		out = r.Run(scen.RunOpts{Tier: *tier, Known: known, Workers: *workers})
		return ""
	}()
	if crashed != "" {
		// a crash of the checker itself is never reported as a violation
		fmt.Fprintln(os.Stderr, "INTERNAL ERROR:", crashed)
		return 3
	}
	wall := time.Since(start)

	exit := 0
	var sigs []string
	for s := range out.Known {
		sigs = append(sigs, s)
	}
	sort.Strings(sigs)
	for _, s := range sigs {
		fmt.Printf("KNOWN-FINDING: property=%s %s (signature %s, %d occurrences, e.g. %s)\n", id, what[s], strings.TrimPrefix(s, id+"|"), out.Known[s].Count, out.Known[s].Example)
	}
	if out.InternalError != "" {
		fmt.Fprintln(os.Stderr, "INTERNAL ERROR:", out.InternalError)
		exit = 3
	}
	for i, v := range out.Violations {
		path := ""
		if *replayDir != "" {
			os.MkdirAll(filepath.Join(*replayDir, id), 0o755)
			path = filepath.Join(*replayDir, id, fmt.Sprintf("%s-%d.json", sanitize(v.Violation.Signature()), i))
			b, _ := json.MarshalIndent(replayFile{Property: id, Tier: *tier, Seed: v.Seed, Ops: v.Path, Violation: v.Violation, Reproduced: v.Reproduced}, "", " ")
			os.WriteFile(path, b, 0o644)
		}
		fmt.Printf("VIOLATION property=%s replay=%s\n", id, path)
		fmt.Printf("  rule=%s site=%s\n  %s\n  path: %s\n", v.Violation.Rule, v.Violation.Site, v.Violation.Detail, engine.PathJSON(v.Path))
		if exit == 0 {
			exit = 1
		}
	}
	ev := out.Evidence
	ev["property_id"] = id
	ev["tier"] = *tier
	ev["seed"] = 0
	ev["wall_s"] = wall.Seconds()
	ev["violations"] = len(out.Violations)
	if *evPath != "" {
		os.MkdirAll(filepath.Dir(*evPath), 0o755)
		b, _ := json.MarshalIndent(ev, "", " ")
		if err := os.WriteFile(*evPath, b, 0o644); err != nil {
			fmt.Fprintln(os.Stderr, err)
			return 3
		}
	}
	fmt.Printf("%s %s: %s  wall=%.1fs exit=%d\n", id, *tier, out.Summary, wall.Seconds(), exit)
	return exit
}

func sanitize(s string) string {
	var b strings.Builder
	for _, c := range s {
		if (c >= 'a' && c <= 'z') || (c >= 'A' && c <= 'Z') || (c >= '0' && c <= '9') || c == '_' || c == '-' {
			b.WriteRune(c)
		} else {
			b.WriteRune('_')
		}
	}
	if b.Len() > 80 {
		return b.String()[:80]
	}
	return b.String()
}

func replay(path string) int {
	b, err := os.ReadFile(path)
	if err != nil {
		fmt.Fprintln(os.Stderr, err)
		return 2
	}
	var rf replayFile
	if err := json.Unmarshal(b, &rf); err != nil {
		fmt.Fprintln(os.Stderr, err)
		return 2
	}
	r := scen.Lookup(rf.Property, rf.Tier)
	if r == nil || r.Replay == nil {
		fmt.Fprintln(os.Stderr, "no replayer for", rf.Property)
		return 2
	}
	vs := r.Replay(rf.Tier, rf.Seed, rf.Ops)
	hit := false
	for _, v := range vs {
		fmt.Printf("violation: %s %s: %s\n", v.Rule, v.Site, v.Detail)
		if v.Signature() == rf.Violation.Signature() {
			hit = true
		}
	}
	if hit {
		fmt.Printf("VIOLATION property=%s replay=%s\n", rf.Property, path)
		return 1
	}
	fmt.Println("replay: recorded violation does not occur on this tree")
	return 0
}
