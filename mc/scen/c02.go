package scen

import (
	"strings"
	"fmt"
	"sort"

	sdk "github.com/cosmos/cosmos-sdk/types"

	"verifmc/engine"
	"verifmc/hub"

	mhubtypes "github.com/MinterTeam/mhub2/module/x/mhub2/types"
)

// C02: an external event is applied only with votes of distinct bonded validators holding
// >= 66% of total bonded power at tally time; every counted vote was cast by a bonded
// validator or its registered orchestrator.
type C02 struct {
	Vals   []hub.Validator
	Powers []int64 // 0 = exists but unbonded at genesis
	User   sdk.AccAddress
	Nonces int
	Chain  string
	Stranger sdk.AccAddress
	StakeOps bool
	TopNonce bool  // validator A may claim the event nonce 2^64-1
	Keyless  []int // validators that registered no keys for the chain (they vote from their own accounts)
}

func NewC02(powers []int64, nonces int, stakeOps bool) *C02 {
	c := &C02{Powers: powers, User: hub.User("u1"), Nonces: nonces, Chain: "ethereum", Stranger: hub.User("stranger"), StakeOps: stakeOps}
	for i := range powers {
		c.Vals = append(c.Vals, hub.NewValidator(string(rune('A'+i))))
	}
	return c
}

func (c *C02) ID() string               { return "C02" }
func (c *C02) Setup(in *hub.Instance)   {}
func (c *C02) SeedPaths() [][]engine.Op { return [][]engine.Op{{}} }
func (c *C02) Genesis() hub.Genesis {
	// unbonded validators keep a nominal power in the table row so that Rebond restores it
	g := StdGenesis(c.Vals, c.Powers, []sdk.AccAddress{c.User, c.Stranger}, nil)
	for _, k := range c.Keyless {
		for _, es := range g.Hub.ExternalStates {
			if es.ChainId != c.Chain {
				continue
			}
			var keep []*mhubtypes.MsgDelegateKeys
			for _, dk := range es.DelegateKeys {
				if dk.ValidatorAddress != c.Vals[k].Oper.String() {
					keep = append(keep, dk)
				}
			}
			es.DelegateKeys = keep
		}
	}
	for i := range g.Staking {
		if c.Powers[i] == 0 {
			g.Staking[i].Power = 7
			g.Staking[i].Bonded = false
		}
	}
	return g
}

func (c *C02) event(nonce, variant int64) *mhubtypes.SendToHubEvent {
	hv := variant
	if variant == 2 {
		hv = 0 // variant 2 reports the same external transaction as variant 0 with another amount
	}
	return &mhubtypes.SendToHubEvent{
		EventNonce: uint64(nonce), ExternalCoinId: EthHub, Amount: c02Amount(nonce, variant),
		Sender: hub.HexAddr("depositor"), CosmosReceiver: c.User.String(), ExternalHeight: uint64(100 + nonce),
		TxHash: fmt.Sprintf("0xdep%d%d", nonce, hv),
	}
}

// variant 2 of a nonce differs from variant 0 only above bit 64 of the amount
func c02Amount(nonce, variant int64) sdk.Int {
	if variant == 2 {
		return sdk.NewInt(c03Amount(nonce, 0)).Add(pow2(64))
	}
	return sdk.NewInt(c03Amount(nonce, variant))
}

type c02Ghost struct {
	Accepted map[string]bool
	Bal      string
	Voted    map[string]string // "nonce/variant" -> validator indexes whose claim for exactly that event was accepted
}

func (g *c02Ghost) Clone() Ghost {
	n := &c02Ghost{Accepted: map[string]bool{}, Bal: g.Bal, Voted: cloneS(g.Voted)}
	for k, v := range g.Accepted {
		n.Accepted[k] = v
	}
	return n
}
func (g *c02Ghost) Canon() string {
	var ks []string
	for k := range g.Accepted {
		ks = append(ks, k)
	}
	sort.Strings(ks)
	return fmt.Sprint(ks, g.Bal) + canonMap(g.Voted)
}
func (c *C02) NewGhost(in *hub.Instance) Ghost {
	return &c02Ghost{Accepted: map[string]bool{}, Bal: "0", Voted: map[string]string{}}
}

// signer kinds: 0 validator's own account, 1 its orchestrator, 2 stranger account
func (c *C02) Ops(s *HState) []engine.Op {
	ops := []engine.Op{engine.OpN("NextBlock")}
	for v := range c.Vals {
		for n := 1; n <= c.Nonces; n++ {
			for va := 0; va < 2; va++ {
				for kind := 0; kind < 2; kind++ {
					ops = append(ops, engine.OpN("Vote", v, n, va, kind))
				}
			}
		}
	}
	ops = append(ops, engine.OpN("Vote", 0, 1, 0, 2))
	if c.TopNonce {
		// validator A's claim of the nonce 2^64-1 (a first claim may carry any nonce): its cursor then stands at the top of
		// the range; claimed again and again it must not be recorded again
		ops = append(ops, engine.OpN("Vote", 0, -1, 0, 0), engine.OpN("Vote", 0, -1, 1, 0))
	}
	// the last validator reports nonce 1 with an amount that differs from variant 0 only above bit 64
	ops = append(ops, engine.OpN("Vote", len(c.Vals)-1, 1, 2, 0))
	if c.StakeOps {
		// validator A leaves for good (x/staking deletes the record) / is created again by the same operator
		if !s.Snap.Staking[0].Removed {
			ops = append(ops, engine.OpN("Leave", 0))
		} else {
			ops = append(ops, engine.OpN("Return", 0))
		}
		for v := range c.Vals {
			ops = append(ops, engine.OpN("Unbond", v), engine.OpN("Rebond", v), engine.OpN("SetPower", v, 1), engine.OpN("SetPower", v, 40))
		}
	}
	return ops
}

func (c *C02) Do(in *hub.Instance, gg Ghost, op engine.Op, st *engine.Step) {
	g := gg.(*c02Ghost)
	switch op.Kind {
	case "Leave":
		in.ValLeave(int(op.I[0]))
		st.Obs = "l"
	case "Return":
		p := c.Powers[op.I[0]]
		if p == 0 {
			p = 7
		}
		in.ValReturn(int(op.I[0]), p)
		st.Obs = "ret"
	// staking transactions: the validator's tokens change at once, its last power / status and the last total power when
	// the staking EndBlocker of this block runs (which app.go places before mhub2's)
	case "Unbond":
		in.ValChangeDeferred(int(op.I[0]), in.Staking.Vals[op.I[0]].Power, 2)
		st.Obs = "u"
	case "Rebond":
		in.ValChangeDeferred(int(op.I[0]), in.Staking.Vals[op.I[0]].Power, 1)
		st.Obs = "r"
	case "SetPower":
		in.ValChangeDeferred(int(op.I[0]), op.I[1], 0)
		st.Obs = "p"
	case "Vote":
		v, n, va, kind := op.I[0], op.I[1], op.I[2], op.I[3]
		var signer sdk.AccAddress
		switch kind {
		case 0:
			signer = c.Vals[v].Acc
		case 1:
			signer = c.Vals[v].Orch
		default:
			signer = c.Stranger
		}
		ev := c.event(n, va)
		before := c.votes(in, uint64(n), ev)
		r := in.DeliverMsg(hub.EventMsg(signer, c.Chain, ev))
		if !r.OK() {
			st.Obs = "rejected"
			st.Count("votes_rejected", 1)
			return
		}
		st.Obs = "accepted"
		st.Count("votes_accepted", 1)
		after := c.votes(in, uint64(n), ev)
		// the vote must be attributed to exactly the validator that owns the signer, and that validator must be bonded now
		if kind == 2 {
			st.Violate("C02", "vote_accepted_from_unknown_account", "getSignerValidator", "stranger account's claim was recorded: votes %v", after)
			return
		}
		for _, b := range before {
			if b == c.Vals[v].Oper.String() {
				st.Violate("C02", "validator_recorded_twice_on_one_record", "recordEventVote", "validator %d had voted for event %d/%d already, its claim was recorded again: votes %v -> %v", v, n, va, before, after)
			}
		}
		for k, who := range g.Voted {
			if strings.HasPrefix(k, fmt.Sprintf("%d/", n)) && k != fmt.Sprintf("%d/%d", n, va) && strings.Contains(who, fmt.Sprintf("[%d]", v)) {
				st.Violate("C02", "second_vote_for_a_nonce", "recordEventVote", "validator %d voted for %s and now for %d/%d", v, k, n, va)
			}
		}
		if len(after) != len(before)+1 || after[len(after)-1] != c.Vals[v].Oper.String() {
			st.Violate("C02", "vote_attributed_to_wrong_validator", "recordEventVote", "signer of validator %d (kind %d): votes %v -> %v", v, kind, before, after)
		}
		key := fmt.Sprintf("%d/%d", n, va)
		if !strings.Contains(g.Voted[key], fmt.Sprintf("[%d]", v)) {
			g.Voted[key] += fmt.Sprintf("[%d]", v)
		}
		if !in.Staking.Vals[v].Bonded || in.Staking.Vals[v].Removed {
			st.Violate("C02", "vote_accepted_from_unbonded_validator", "getSignerValidator", "validator %d is not bonded but its claim was recorded", v)
		}
	case "NextBlock":
		ctx := in.Ctx()
		beforeNonce := in.Hub.GetLastObservedEventNonce(ctx, mhubtypes.ChainID(c.Chain))
		if p := in.EndBlock(); BlockFailure(st, p) {
			return
		}
		c.afterTally(in, g, beforeNonce, st)
		if p := in.BeginBlock(5); BlockFailure(st, p) {
			return
		}
	}
}

func (c *C02) votes(in *hub.Instance, nonce uint64, ev mhubtypes.ExternalEvent) []string {
	r := in.Hub.GetExternalEventVoteRecord(in.Ctx(), mhubtypes.ChainID(c.Chain), nonce, ev.Hash())
	if r == nil {
		return nil
	}
	return append([]string(nil), r.Votes...)
}

func (c *C02) afterTally(in *hub.Instance, g *c02Ghost, before uint64, st *engine.Step) {
	ctx := in.Ctx()
	recs := in.Hub.GetExternalEventVoteRecordMapping(ctx, mhubtypes.ChainID(c.Chain))
	// staking table at tally time (the scripted table did not change during EndBlock)
	total := int64(0)
	power := map[string]int64{}
	for _, v := range in.Staking.Vals {
		if v.Bonded && !v.Removed {
			total += v.Power
			power[v.Oper] = v.Power
		}
	}
	newly := 0
	var nonces []uint64
	for n := range recs {
		nonces = append(nonces, n)
	}
	sort.Slice(nonces, func(i, j int) bool { return nonces[i] < nonces[j] })
	for _, nonce := range nonces {
		for _, r := range recs[nonce] {
			if !r.Accepted {
				continue
			}
			ev, _ := mhubtypes.UnpackEvent(r.Event)
			id := fmt.Sprintf("%d/%x", nonce, ev.Hash().Bytes()[:4])
			if g.Accepted[id] {
				continue
			}
			g.Accepted[id] = true
			newly++
			seen := map[string]bool{}
			sum := int64(0)
			for _, v := range r.Votes {
				if seen[v] {
					st.Violate("C02", "validator_counted_twice", "recordEventVote", "record %s votes %v", id, r.Votes)
					continue
				}
				seen[v] = true
				sum += power[v] // 0 if not bonded at tally
			}
			// >= 66% of total bonded power, exact integers: 100*sum >= 66*total
			if 100*sum < 66*total {
				st.Violate("C02", "applied_below_66_percent", fmt.Sprintf("EventVoteRecordPowerThreshold(total=%d)", total),
					"event %s applied with distinct bonded voters holding %d of %d total power (%.1f%%); votes %v", id, sum, total, 100*float64(sum)/float64(total), r.Votes)
			}
			// ... and, independently of the hub's own record: the validators whose claim for EXACTLY this event was accepted
			// (reference kept from the message results) hold that quorum
			if d, ok := ev.(*mhubtypes.SendToHubEvent); ok {
				own := int64(0)
				variant := -1
				for va := int64(0); va < 3; va++ {
					if d.Amount.Equal(c02Amount(int64(nonce), va)) {
						variant = int(va)
					}
				}
				for i, v := range c.Vals {
					if variant >= 0 && strings.Contains(g.Voted[fmt.Sprintf("%d/%d", nonce, variant)], fmt.Sprintf("[%d]", i)) {
						own += power[v.Oper.String()]
					}
				}
				if 100*own < 66*total {
					st.Violate("C02", "applied_event_lacks_quorum_of_its_own_voters", "recordEventVote/TryEventVoteRecord",
						"event %s (amount %s) applied; the validators that voted for exactly this event hold %d of %d; record votes %v, reference %v", id, d.Amount, own, total, r.Votes, g.Voted)
				}
			}
			st.Count("events_applied", 1)
		}
	}
	after := in.Hub.GetLastObservedEventNonce(ctx, mhubtypes.ChainID(c.Chain))
	bal := in.Bank.GetBalance(ctx, c.User, "hub").Amount.String()
	if newly == 0 && (after != before || bal != g.Bal) {
		st.Violate("C02", "state_changed_without_accepted_event", "EndBlocker", "observed nonce %d->%d balance %s->%s with no newly accepted record", before, after, g.Bal, bal)
	}
	g.Bal = bal
	st.Obs = fmt.Sprintf("applied+%d", newly)
}
