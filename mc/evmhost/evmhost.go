// Package evmhost runs the real compiled Hub2 bytecode (module/solidity/Hub2.go) and, as a plain
// ERC-20, the WETH9 bytecode (solidity/contracts/WETH9.go, read with go/parser because that file is
// not an importable package) on go-ethereum's in-memory EVM.
package evmhost

import (
	"fmt"
	"os"
	"go/ast"
	"go/parser"
	"go/token"
	"math/big"
	"strconv"
	"strings"

	"github.com/ethereum/go-ethereum/accounts/abi"
	"github.com/ethereum/go-ethereum/common"
	"github.com/ethereum/go-ethereum/core/rawdb"
	"github.com/ethereum/go-ethereum/core/state"
	"github.com/ethereum/go-ethereum/core/vm"
	"github.com/ethereum/go-ethereum/core/vm/runtime"
	"github.com/ethereum/go-ethereum/crypto"
	"github.com/ethereum/go-ethereum/params"

	hub2 "github.com/MinterTeam/mhub2/module/solidity"
)

var Hub2ABI abi.ABI
var WethABI abi.ABI
var wethBin []byte

// WethSource is the file the WETH9 bytecode is read from (under the tree named by VERIF_REPO, default /repo).
var WethSource = func() string {
	r := os.Getenv("VERIF_REPO")
	if r == "" {
		r = "/repo"
	}
	return r + "/solidity/contracts/WETH9.go"
}()

func init() {
	a, err := abi.JSON(strings.NewReader(hub2.Hub2MetaData.ABI))
	if err != nil {
		panic(err)
	}
	Hub2ABI = a
}

func loadWeth() {
	if wethBin != nil {
		return
	}
	fs := token.NewFileSet()
	f, err := parser.ParseFile(fs, WethSource, nil, 0)
	if err != nil {
		panic(err)
	}
	vals := map[string]string{}
	ast.Inspect(f, func(n ast.Node) bool {
		if vs, ok := n.(*ast.ValueSpec); ok {
			for i, name := range vs.Names {
				if i < len(vs.Values) {
					if bl, ok := vs.Values[i].(*ast.BasicLit); ok && bl.Kind == token.STRING {
						s, _ := strconv.Unquote(bl.Value)
						vals[name.Name] = s
					}
				}
			}
		}
		if kv, ok := n.(*ast.KeyValueExpr); ok {
			if id, ok := kv.Key.(*ast.Ident); ok {
				if bl, ok := kv.Value.(*ast.BasicLit); ok && bl.Kind == token.STRING {
					s, _ := strconv.Unquote(bl.Value)
					vals[id.Name] = s
				}
			}
		}
		return true
	})
	abiStr, bin := "", ""
	for k, v := range vals {
		if strings.HasSuffix(k, "ABI") && strings.HasPrefix(strings.TrimSpace(v), "[") {
			abiStr = v
		}
		if strings.HasSuffix(k, "Bin") && strings.HasPrefix(v, "0x") {
			bin = v
		}
	}
	if abiStr == "" || bin == "" {
		panic("WETH9 ABI/Bin not found in " + WethSource)
	}
	a, err := abi.JSON(strings.NewReader(abiStr))
	if err != nil {
		panic(err)
	}
	WethABI = a
	wethBin = common.FromHex(bin)
}

// Host is one EVM world.
type Host struct {
	State  *state.StateDB
	Block  uint64
	Hub    common.Address
	Token  common.Address
	Token2 common.Address // a second ERC-20 (same bytecode), deployed after Hub2
	Origin common.Address
}

func (h *Host) cfg(origin common.Address, value *big.Int) *runtime.Config {
	return &runtime.Config{
		ChainConfig: params.AllEthashProtocolChanges,
		Origin:      origin, GasLimit: 50_000_000, GasPrice: big.NewInt(0), Value: value,
		BlockNumber: new(big.Int).SetUint64(h.Block), Difficulty: big.NewInt(1), Time: big.NewInt(1_700_000_000),
		State: h.State, EVMConfig: vm.Config{},
	}
}

// Copy forks the world (O(1)-ish journal copy).
func (h *Host) Copy() *Host {
	n := *h
	n.State = h.State.Copy()
	return &n
}

// New deploys a token (WETH9 used as a plain ERC-20) and Hub2 with the given initial signer set.
func New(gravityID [32]byte, threshold *big.Int, validators []common.Address, powers []*big.Int) (*Host, error) {
	loadWeth()
	sdb, err := state.New(common.Hash{}, state.NewDatabase(rawdb.NewMemoryDatabase()), nil)
	if err != nil {
		return nil, err
	}
	h := &Host{State: sdb, Block: 100, Origin: common.HexToAddress("0x00000000000000000000000000000000000000Aa")}
	sdb.AddBalance(h.Origin, new(big.Int).Lsh(big.NewInt(1), 200))
	_, tok, _, err := runtime.Create(wethBin, h.cfg(h.Origin, nil))
	if err != nil {
		return nil, fmt.Errorf("deploy token: %w", err)
	}
	h.Token = tok
	// a different (non-contract) address is given as wethAddress so that the token takes the ordinary ERC-20 path
	notWeth := common.HexToAddress("0x00000000000000000000000000000000000000Bb")
	args, err := Hub2ABI.Pack("", gravityID, threshold, validators, powers, notWeth, h.Origin)
	if err != nil {
		return nil, err
	}
	_, hubAddr, _, err := runtime.Create(append(common.FromHex(hub2.Hub2MetaData.Bin), args...), h.cfg(h.Origin, nil))
	if err != nil {
		return nil, fmt.Errorf("deploy hub2: %w", err)
	}
	h.Hub = hubAddr
	_, tok2, _, err := runtime.Create(wethBin, h.cfg(h.Origin, nil))
	if err != nil {
		return nil, fmt.Errorf("deploy token2: %w", err)
	}
	h.Token2 = tok2
	return h, nil
}

// Fund gives the Hub2 contract a token balance (deposit ETH into the token, transfer to Hub2).
func (h *Host) Fund(amount *big.Int) error {
	in, _ := WethABI.Pack("deposit")
	if _, _, err := runtime.Call(h.Token, in, h.cfg(h.Origin, amount)); err != nil {
		return err
	}
	in, _ = WethABI.Pack("transfer", h.Hub, amount)
	_, _, err := runtime.Call(h.Token, in, h.cfg(h.Origin, nil))
	return err
}

// Call invokes a Hub2 method; err != nil means the call reverted.
func (h *Host) Call(method string, args ...interface{}) ([]byte, error) {
	in, err := Hub2ABI.Pack(method, args...)
	if err != nil {
		return nil, fmt.Errorf("pack %s: %w", method, err)
	}
	snap := h.State.Snapshot()
	ret, _, err := runtime.Call(h.Hub, in, h.cfg(h.Origin, nil))
	if err != nil {
		h.State.RevertToSnapshot(snap)
		return ret, err
	}
	return ret, nil
}

// View reads a uint256/bytes32 public getter.
func (h *Host) View(method string, args ...interface{}) ([]interface{}, error) {
	in, err := Hub2ABI.Pack(method, args...)
	if err != nil {
		return nil, err
	}
	c := h.cfg(h.Origin, nil)
	c.State = h.State.Copy()
	ret, _, err := runtime.Call(h.Hub, in, c)
	if err != nil {
		return nil, err
	}
	return Hub2ABI.Unpack(method, ret)
}

// TokenBalance reads the ERC-20 balance of an address.
func (h *Host) TokenBalance(a common.Address) *big.Int {
	in, _ := WethABI.Pack("balanceOf", a)
	c := h.cfg(h.Origin, nil)
	c.State = h.State.Copy()
	ret, _, err := runtime.Call(h.Token, in, c)
	if err != nil {
		panic(err)
	}
	return new(big.Int).SetBytes(ret)
}

// RevertReason decodes Error(string) return data.
func RevertReason(ret []byte) string {
	if len(ret) < 4+64 {
		return ""
	}
	r, err := abi.UnpackRevert(ret)
	if err != nil {
		return ""
	}
	return r
}

// Log is one event emitted by the Hub2 contract.
type Log struct {
	Name   string
	Topics []common.Hash
	Values map[string]interface{} // non-indexed arguments, decoded with the contract ABI
}

// CallLogs is Call plus the Hub2 events the call emitted (nil on revert).
func (h *Host) CallLogs(origin common.Address, method string, args ...interface{}) ([]Log, []byte, error) {
	in, err := Hub2ABI.Pack(method, args...)
	if err != nil {
		return nil, nil, fmt.Errorf("pack %s: %w", method, err)
	}
	before := len(h.State.Logs())
	snap := h.State.Snapshot()
	ret, _, err := runtime.Call(h.Hub, in, h.cfg(origin, nil))
	if err != nil {
		h.State.RevertToSnapshot(snap)
		return nil, ret, err
	}
	var out []Log
	all := h.State.Logs()
	for _, l := range all[before:] {
		if l.Address != h.Hub || len(l.Topics) == 0 {
			continue
		}
		ev, err := Hub2ABI.EventByID(l.Topics[0])
		if err != nil {
			continue
		}
		vals := map[string]interface{}{}
		if err := Hub2ABI.UnpackIntoMap(vals, ev.Name, l.Data); err != nil {
			return nil, ret, fmt.Errorf("decode %s: %w", ev.Name, err)
		}
		out = append(out, Log{Name: ev.Name, Topics: l.Topics, Values: vals})
	}
	return out, ret, nil
}

// Deposit: origin wraps `amount` wei into the token, approves Hub2 and calls transferToChain.
func (h *Host) Deposit(token common.Address, chain string, dest [32]byte, amount, fee *big.Int) ([]Log, error) {
	in, _ := WethABI.Pack("deposit")
	if _, _, err := runtime.Call(token, in, h.cfg(h.Origin, amount)); err != nil {
		return nil, err
	}
	in, _ = WethABI.Pack("approve", h.Hub, amount)
	if _, _, err := runtime.Call(token, in, h.cfg(h.Origin, nil)); err != nil {
		return nil, err
	}
	var ch [32]byte
	copy(ch[:], chain)
	logs, _, err := h.CallLogs(h.Origin, "transferToChain", token, ch, dest, amount, fee)
	return logs, err
}

// BalanceOf reads an ERC-20 balance.
func (h *Host) BalanceOf(token, a common.Address) *big.Int {
	in, _ := WethABI.Pack("balanceOf", a)
	c := h.cfg(h.Origin, nil)
	c.State = h.State.Copy()
	ret, _, err := runtime.Call(token, in, c)
	if err != nil {
		panic(err)
	}
	return new(big.Int).SetBytes(ret)
}

// Root is a canonical digest of the whole EVM world (state root + block number).
func (h *Host) Root() string {
	c := h.State.Copy()
	return fmt.Sprintf("%x@%d", c.IntermediateRoot(true).Bytes()[:12], h.Block)
}

// TokenAddress is the address the i-th token contract gets (creations 0 and 2 by Origin; Hub2 is creation 1).
func TokenAddress(i int) common.Address {
	return crypto.CreateAddress(common.HexToAddress("0x00000000000000000000000000000000000000Aa"), uint64(2*i))
}
