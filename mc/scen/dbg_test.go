package scen

import (
	"fmt"
	"testing"

	"verifmc/engine"
)

func TestDbgC01(t *testing.T) {
	cfg, _ := bridgeCfgFor("C01", "quick"); cfg.NoPrices = true
	b := NewBridge(cfg)
	a := Adapter{Spec: b}
	w := a.NewWorker().(*worker)
	ops := []engine.Op{engine.OpN("Send", "ethereum", "hub", 0, 0, 0), engine.OpN("ReqBatch", "ethereum", "hub"), engine.OpN("Exec", "ethereum", EthHub, 1), engine.OpN("Next", 5)}
	s, steps := a.Replay(w, 1, ops)
	for i, st := range steps {
		fmt.Println(ops[i], st.Obs, st.Counters, st.Violations, st.Pruned)
	}
	v := b.view(w.in)
	fmt.Println("batches", len(v.Batches["ethereum"]), "pool", len(v.Pool["ethereum"]), len(v.Pool["minter"]))
	g := s.(*HState).G.(*bridgeGhost)
	fmt.Println(g.Custody, g.ExecUnobs, v.Supply)
	for _, e := range v.Pool["minter"] {
		fmt.Println(e.String())
	}
}
