#!/bin/bash
# usage: tools/run_tier.sh <tier> [ids...] — runs the checks of one tier in sequence and prints one line each
V="$(cd "$(dirname "$0")/.." && pwd)"
tier=${1:-quick}; shift
ids=${@:-C01 C02 C03 C04 C05 C06 C07 C08 C09 C10 C11 C12 C13 C14 C15 C16 C17 C18 C19 C20}
cd $V
[ -x .build/hubmc ] || bash bin/setup >/dev/null 2>&1
for id in $ids; do
  s=$(date +%s); bin/check $id $tier > .build/$id.$tier.log 2>&1; rc=$?; e=$(date +%s)
  echo "$id $tier rc=$rc $((e-s))s known=$(grep -c KNOWN-FINDING .build/$id.$tier.log) viol=$(grep -c ^VIOLATION .build/$id.$tier.log) $(tail -1 .build/$id.$tier.log | cut -c1-260)"
done
