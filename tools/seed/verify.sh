#!/bin/bash
# usage: verify.sh <worktree> <mutdir> <dest pkg dir relative to worktree> <test -run regexp> [module subdir, default module]
# Confirms a seeded change: demo passes on the unchanged worktree; with the patch the tree builds, the
# existing suite passes and the demo fails. Leaves the worktree clean.
set -u
WT=$1; MUT=$2; DEST=$3; RUN=$4; MOD=${5:-module}
export GOFLAGS=-mod=mod GOPROXY=off GOSUMDB=off GOTOOLCHAIN=local
cd $WT || exit 2
git checkout -q -- . ; git clean -fdq -e SEEDED
cp $MUT/*_test.go $DEST/ || exit 2
MODFLAG=""
case "$DEST" in minter-connector/*)
  sed "s#^replace github.com/MinterTeam/mhub2/module .*#replace github.com/MinterTeam/mhub2/module => $WT/module#" $WT/minter-connector/go.mod > /tmp/seed.alt.$$.mod
  cat $WT/minter-connector/go.sum $WT/module/go.sum > /tmp/seed.alt.$$.sum
  MODFLAG="-modfile=/tmp/seed.alt.$$.mod" ;;
esac
demo() { (cd $WT/$DEST && TMPDIR=/dev/shm go test $MODFLAG -vet=off -count=1 -run "$RUN" . 2>&1 | tail -15); }
echo "== demo on unchanged tree"; demo > /tmp/seed_demo_base.$$.log; tail -3 /tmp/seed_demo_base.$$.log
grep -q "^ok" /tmp/seed_demo_base.$$.log && BASE=pass || BASE=fail
for f in $MUT/*_test.go; do rm -f $DEST/$(basename $f); done
git apply $MUT/patch.diff || { echo "PATCH DOES NOT APPLY"; exit 2; }
echo "== build"; (cd $WT/$MOD && go build $MODFLAG ./... 2>&1 | tail -5) ; BUILD=$?
echo "== suite"; (cd $WT/module && go test -vet=off -count=1 ./x/... 2>&1 | grep -v "no test files" | tail -8) > /tmp/seed_suite.$$.log; cat /tmp/seed_suite.$$.log
grep -q "^FAIL\|^---" /tmp/seed_suite.$$.log && SUITE=fail || SUITE=pass
cp $MUT/*_test.go $DEST/
echo "== demo with patch"; demo > /tmp/seed_demo_mut.$$.log; tail -6 /tmp/seed_demo_mut.$$.log
grep -q "^ok" /tmp/seed_demo_mut.$$.log && MUTR=pass || MUTR=fail
git checkout -q -- . ; git clean -fdq -e SEEDED
echo "RESULT base_demo=$BASE suite_with_patch=$SUITE demo_with_patch=$MUTR"
rm -f /tmp/seed_demo_base.$$.log /tmp/seed_suite.$$.log /tmp/seed_demo_mut.$$.log /tmp/seed.alt.$$.mod /tmp/seed.alt.$$.sum
