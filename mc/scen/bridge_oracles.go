package scen

import (
	"encoding/binary"
	"fmt"
	"math/big"
	"sort"
	"strings"

	"github.com/cosmos/cosmos-sdk/codec"
	codectypes "github.com/cosmos/cosmos-sdk/codec/types"
	sdk "github.com/cosmos/cosmos-sdk/types"
	"github.com/gogo/protobuf/proto"

	"verifmc/engine"
	"verifmc/hub"

	mhubtypes "github.com/MinterTeam/mhub2/module/x/mhub2/types"
)

var snapCdc codec.Codec

func snapCodec() codec.Codec {
	if snapCdc == nil {
		reg := codectypes.NewInterfaceRegistry()
		mhubtypes.RegisterInterfaces(reg)
		snapCdc = codec.NewProtoCodec(reg)
	}
	return snapCdc
}

// decodeOutgoing decodes one OutgoingTxKey entry of the raw mhub2 store.
func decodeOutgoing(cdc codec.Codec, k, v []byte) (mhubtypes.OutgoingTx, string) {
	var any codectypes.Any
	if err := cdc.Unmarshal(v, &any); err != nil {
		panic(err)
	}
	var otx mhubtypes.OutgoingTx
	if err := cdc.UnpackAny(&any, &otx); err != nil {
		panic(err)
	}
	rest := k[1:]
	for _, c := range []string{"ethereum", "minter", "bsc", "hub"} {
		if len(rest) >= len(c) && string(rest[:len(c)]) == c {
			return otx, c
		}
	}
	return otx, "?"
}

func unmarshalMsgData(in *hub.Instance, data []byte, out proto.Message) error {
	return proto.Unmarshal(data, out)
}

func rawU64(in *hub.Instance, key []byte) uint64 {
	bz := in.RawGet(mhubtypes.StoreKey, key)
	if len(bz) != 8 {
		return 0
	}
	return binary.BigEndian.Uint64(bz)
}

func outgoingSeq(in *hub.Instance, chain string) uint64 {
	return rawU64(in, append([]byte{mhubtypes.OutgoingSequence}, []byte(chain)...))
}

// v records a violation only when the running check owns the property.
func (b *Bridge) v(st *engine.Step, prop, rule, site, format string, a ...interface{}) {
	if b.Cfg.Prop == prop {
		st.Violate(prop, rule, site, format, a...)
	}
}

type loc struct {
	where string
	ent   *mhubtypes.SendToExternal
}

// locate maps chain/id -> location(s) in the real store.
func locate(v *view) map[string][]loc {
	out := map[string][]loc{}
	for ch, es := range v.Pool {
		for _, e := range es {
			k := fmt.Sprintf("%s/%d", ch, e.Id)
			out[k] = append(out[k], loc{"pool", e})
		}
	}
	for ch, bs := range v.Batches {
		for _, bt := range bs {
			for _, e := range bt.Transactions {
				k := fmt.Sprintf("%s/%d", ch, e.Id)
				out[k] = append(out[k], loc{fmt.Sprintf("batch:%s:%d", bt.ExternalTokenId, bt.BatchNonce), e})
			}
		}
	}
	return out
}

func batchKey(ch string, bt *mhubtypes.BatchTx) string {
	return fmt.Sprintf("%s|%s|%d", ch, bt.ExternalTokenId, bt.BatchNonce)
}

func (b *Bridge) timeoutDur() int64 {
	if b.Cfg.Timeout > 0 {
		return b.Cfg.Timeout
	}
	return 86400 - 1 // default params: 86399999 ms
}

func hubAmount(e *mhubtypes.SendToExternal, dec uint64) sdk.Int {
	tot := e.Token.Amount.Add(e.Fee.Amount).Add(e.ValCommission.Amount)
	return refConvert(tot, dec, 18)
}

// refConvert is the reference decimal conversion (truncating).
func refConvert(x sdk.Int, from, to uint64) sdk.Int {
	if from == to {
		return x
	}
	r := new(big.Int).Set(x.BigInt())
	r.Mul(r, pow10(int64(to)))
	r.Quo(r, pow10(int64(from)))
	return sdk.NewIntFromBigInt(r)
}

// after reconciles the ghost registry with the real store and evaluates the oracles of the
// property that owns this run. endBlock marks the EndBlock phase (events applied, expiry).
func (b *Bridge) after(in *hub.Instance, g *bridgeGhost, op engine.Op, pre *view, preBal map[string]sdk.Coins, st *engine.Step, endBlock bool) {
	post := b.view(in)
	postBal := b.balances(in)
	ctx := in.Ctx()
	locs := locate(post)
	preLocs := locate(pre)

	// ---- which batches existed before / exist now
	preB := map[string]*mhubtypes.BatchTx{}
	postB := map[string]*mhubtypes.BatchTx{}
	for ch, bs := range pre.Batches {
		for _, bt := range bs {
			preB[batchKey(ch, bt)] = bt
		}
	}
	for ch, bs := range post.Batches {
		for _, bt := range bs {
			postB[batchKey(ch, bt)] = bt
		}
	}
	// applied execution events of this phase
	execd := map[string]bool{}
	if endBlock {
		for _, p := range g.Pending {
			if p.Kind == "exec" {
				execd[fmt.Sprintf("%s|%s|%d", p.Chain, p.Token, p.Nonce)] = true
			}
		}
	}

	// reference observed height: events of this block that the hub counts as applied (its observed event
	// nonce covers them) were voted by a quorum of honest validators
	if endBlock {
		for _, p := range g.Pending {
			if p.EvNonce != 0 && p.EvNonce <= in.Hub.GetLastObservedEventNonce(ctx, mhubtypes.ChainID(p.Chain)) && p.Height > g.ObsHeight[p.Chain] {
				g.ObsHeight[p.Chain] = p.Height
			}
		}
	}

	// ---- C04: no transfer in two places
	for k, l := range locs {
		if len(l) > 1 {
			b.v(st, "C04", "transfer_in_two_places", "pool/batch index", "%s is at %v", k, []string{l[0].where, l[1].where})
		}
	}

	for _, m := range g.ImportedLow {
		// on Minter the sequence is the multisig nonce: a number at or below the counter has been spent
		b.v(st, "C10", "outgoing_sequence_not_above_counter", "InitGenesis", "%s", m)
	}
	// ---- new batches: C10 well-formedness at creation
	var newKeys []string
	for k := range postB {
		if !g.BatchSeen[k] {
			newKeys = append(newKeys, k)
		} else if seq, ok := g.BatchSeq[k]; ok && seq != postB[k].Sequence {
			// same chain, token and nonce as an earlier batch but created anew: signatures for the old one attach to it
			b.v(st, "C10", "batch_nonce_reused", "incrementLastOutgoingBatchNonce", "batch %s exists again with outgoing sequence %d (first created with %d): the nonce was given to two different batches", k, postB[k].Sequence, seq)
			g.BatchSeq[k] = postB[k].Sequence
		}
	}
	sort.Slice(newKeys, func(i, j int) bool { return postB[newKeys[i]].Sequence < postB[newKeys[j]].Sequence })
	for _, k := range newKeys {
		bt := postB[k]
		var ch string
		for c, bs := range post.Batches {
			for _, x := range bs {
				if x == bt {
					ch = c
				}
			}
		}
		g.BatchSeen[k] = true
		g.BatchSeq[k] = bt.Sequence
		st.Count("batches_created", 1)
		if bt.Sequence <= g.LastSeq[ch] {
			// on Minter the sequence is the multisig nonce: a number at or below the counter has been spent
			b.v(st, "C10", "outgoing_sequence_not_above_counter", "SetOutgoingTx", "batch %s carries sequence %d, the chain's outgoing sequence counter was already at %d", k, bt.Sequence, g.LastSeq[ch])
		}
		if len(bt.Transactions) == 0 {
			b.v(st, "C10", "empty_batch", op.Kind, "batch %s created with no transfers", k)
		}
		if len(bt.Transactions) > 100 {
			b.v(st, "C10", "oversized_batch", op.Kind, "batch %s has %d transfers", k, len(bt.Transactions))
		}
		foreign := false
		for _, e := range bt.Transactions {
			if e.Token.ExternalTokenId != bt.ExternalTokenId || e.ChainId != ch {
				foreign = true
				b.v(st, "C10", "batch_contains_foreign_token", "iterateUnbatchedSendToExternalsByCoin", "batch %s contains transfer %d of token %s chain %s", k, e.Id, e.Token.ExternalTokenId, e.ChainId)
				break
			}
		}
		// reference selector: top-k fees among the token's unbatched transfers right before creation
		if !foreign && len(bt.Transactions) > 0 {
			var cand []*big.Int
			for _, e := range pre.Pool[ch] {
				if e.Token.ExternalTokenId == bt.ExternalTokenId {
					cand = append(cand, e.Fee.Amount.BigInt())
				}
			}
			for pk, pb := range preB { // transfers of same-token batches cancelled in this very phase were in the pool too
				if _, still := postB[pk]; !still && pb.ExternalTokenId == bt.ExternalTokenId && pk[:len(ch)] == ch && !execd[pk] {
					for _, e := range pb.Transactions {
						cand = append(cand, e.Fee.Amount.BigInt())
					}
				}
			}
			sort.Slice(cand, func(i, j int) bool { return cand[i].Cmp(cand[j]) > 0 })
			kk := len(cand)
			if kk > 100 {
				kk = 100
			}
			var got []*big.Int
			for _, e := range bt.Transactions {
				got = append(got, e.Fee.Amount.BigInt())
			}
			sort.Slice(got, func(i, j int) bool { return got[i].Cmp(got[j]) > 0 })
			same := len(got) == kk
			for i := 0; same && i < kk; i++ {
				if got[i].Cmp(cand[i]) != 0 {
					same = false
				}
			}
			if !same {
				b.v(st, "C10", "not_highest_fee_selection", "BuildBatchTx", "batch %s fees %v, reference top-%d of %v", k, got, kk, cand)
			}
		}
		// nonce +1 per chain in creation order
		if bt.BatchNonce != g.LastBatchNonce[ch]+1 {
			b.v(st, "C10", "batch_nonce_not_gap_free", "incrementLastOutgoingBatchNonce", "chain %s: batch nonce %d after %d", ch, bt.BatchNonce, g.LastBatchNonce[ch])
		}
		if bt.BatchNonce > g.LastBatchNonce[ch] {
			g.LastBatchNonce[ch] = bt.BatchNonce
		}
	}
	// outgoing sequence: every outgoing tx created in this phase carries LastSeq+1.. consecutively
	for _, ch := range AllExtChains {
		seqNow := outgoingSeq(in, ch)
		var seqs []uint64
		for k, bt := range postB {
			if len(k) > len(ch) && k[:len(ch)+1] == ch+"|" && bt.Sequence > g.LastSeq[ch] {
				seqs = append(seqs, bt.Sequence)
			}
		}
		for _, ss := range in.Hub.GetSignerSetTxs(ctx, mhubtypes.ChainID(ch)) {
			if ss.Sequence > g.LastSeq[ch] {
				seqs = append(seqs, ss.Sequence)
			}
		}
		sort.Slice(seqs, func(i, j int) bool { return seqs[i] < seqs[j] })
		want := g.LastSeq[ch]
		for _, s := range seqs {
			want++
			if s != want {
				// a created-and-already-deleted tx may legitimately consume a number inside one phase
				// only if the counter says so; gaps relative to the counter are the violation
				if s > seqNow {
					b.v(st, "C10", "sequence_beyond_counter", "SetOutgoingTx", "chain %s: sequence %d > counter %d", ch, s, seqNow)
				}
			}
		}
		dup := map[uint64]bool{}
		for _, s := range seqs {
			if dup[s] {
				b.v(st, "C10", "duplicate_outgoing_sequence", "SetOutgoingTx", "chain %s: sequence %d used twice", ch, s)
			}
			dup[s] = true
		}
		if seqNow < g.LastSeq[ch] {
			b.v(st, "C10", "sequence_decreased", "SetOutgoingTx", "chain %s: %d -> %d", ch, g.LastSeq[ch], seqNow)
		}
		g.LastSeq[ch] = seqNow
	}

	// ---- removed batches: executed or cancelled? (C13)
	for k, pb := range preB {
		if _, still := postB[k]; still {
			continue
		}
		var ch string
		for _, c := range AllExtChains {
			if len(k) > len(c) && k[:len(c)+1] == c+"|" {
				ch = c
			}
		}
		if execd[k] {
			st.Count("batches_removed_by_execution", 1)
			continue
		}
		st.Count("batches_cancelled", 1)
		{
			w := &wbatch{Chain: ch, Token: pb.ExternalTokenId, Nonce: pb.BatchNonce, Timeout: pb.Timeout}
			for _, e := range pb.Transactions {
				w.IDs = append(w.IDs, e.Id)
				if !isCold(ch, e.ExternalRecipient) {
					w.Amts = append(w.Amts, e.Token.Amount.String())
				}
			}
			if ch != "minter" && g.stillExecutable(w) {
				g.Withdrawn[k] = w
			}
		}
		if ch == "minter" {
			b.v(st, "C13", "minter_batch_withdrawn", op.Kind, "minter batch %s left the store without an execution event", k)
			continue
		}
		// legitimate causes
		obs := g.ObsHeight[ch] // reference: quorum-observed only (the hub's own record is what is under test)
		byTimeout := !endBlock && obs >= pb.Timeout
		byLater := false
		if endBlock {
			for ek := range execd {
				if eb, ok := preB[ek]; ok && len(ek) > len(ch) && ek[:len(ch)+1] == ch+"|" && eb.ExternalTokenId == pb.ExternalTokenId && eb.BatchNonce > pb.BatchNonce {
					byLater = true
				}
			}
		}
		if !byTimeout && !byLater {
			b.v(st, "C13", "batch_withdrawn_while_executable", op.Kind, "batch %s (timeout %d) withdrawn; observed external height %d, no later same-token batch executed", k, pb.Timeout, obs)
		}
		// its transfers must be back in the pool
		for _, e := range pb.Transactions {
			l := locs[fmt.Sprintf("%s/%d", ch, e.Id)]
			if len(l) == 0 || l[0].where != "pool" {
				// may have been re-batched in the same BeginBlock (auto-batching): accept any single location
				if len(l) == 0 {
					// ... or, released by an execution event, have been refunded by the expiry sweep of the same EndBlocker
					// because it is older than the outgoing-transfer timeout (the refund itself is C12's matter)
					if endBlock && int64(e.CreatedAt)+b.timeoutDur() < in.Time && e.RefundChainId != "" {
						continue
					}
					b.v(st, "C13", "cancelled_batch_transfer_lost", "CancelBatchTx", "transfer %s/%d of withdrawn batch %s is nowhere", ch, e.Id, k)
				}
			}
		}
	}
	// an applied execution must remove exactly its batch and older same-token batches (eth/bsc)
	for ek := range execd {
		eb, existed := preB[ek]
		if !existed {
			continue
		}
		if _, still := postB[ek]; still {
			b.v(st, "C13", "executed_batch_not_removed", "batchTxExecuted", "batch %s still pending after its execution event was applied", ek)
			b.v(st, "C04", "executed_transfers_still_in_a_pending_batch", "batchTxExecuted", "the transfers of batch %s were paid out by the external chain and the execution event has been applied, yet the hub still holds them in that pending batch (they can be released, refunded or paid out again)", ek)
			b.v(st, "C01", "executed_batch_still_in_flight", "batchTxExecuted", "batch %s was paid out of the custody and its execution event has been applied, yet its transfers are still in flight on the hub (a later cancellation, expiry or re-batching pays them a second time)", ek)
		}
		for k, pb := range preB {
			if k == ek || execd[k] {
				continue
			}
			sameChain := false
			var ch string
			for _, c := range AllExtChains {
				if len(k) > len(c) && k[:len(c)+1] == c+"|" && len(ek) > len(c) && ek[:len(c)+1] == c+"|" {
					sameChain, ch = true, c
				}
			}
			if !sameChain {
				continue
			}
			_, still := postB[k]
			older := pb.ExternalTokenId == eb.ExternalTokenId && pb.BatchNonce < eb.BatchNonce
			if ch != "minter" && older && still {
				b.v(st, "C13", "older_batch_not_released", "batchTxExecuted", "batch %s still pending after later batch %s executed", k, ek)
			}
		}
	}

	for k, w := range g.Withdrawn {
		if !g.stillExecutable(w) {
			delete(g.Withdrawn, k)
		}
	}

	// ---- registry reconciliation (C04) and refunds (C12)
	now := in.Time
	// newly appeared transfers unknown to the ghost = created by the module itself
	var newIDs []string
	for k := range locs {
		if _, ok := g.Xfers[k]; !ok {
			newIDs = append(newIDs, k)
		}
	}
	sort.Strings(newIDs)
	for _, k := range newIDs {
		e := locs[k][0].ent
		tok := b.tokenByExt(e.ChainId, e.Token.ExternalTokenId)
		denom := "?"
		dec := uint64(18)
		if tok != nil {
			denom, dec = tok.Denom, tok.Dec
		}
		x := &xfer{Chain: e.ChainId, ID: e.Id, Sender: e.Sender, TxHash: e.TxHash, Denom: denom, Taken: hubAmount(e, dec).String(),
			Amt: e.Token.Amount.String(), Fee: e.Fee.Amount.String(), Com: e.ValCommission.Amount.String(),
			Origin: e.RefundChainId, OriginAddr: e.RefundAddress, Where: locs[k][0].where, Created: int64(e.CreatedAt), System: true}
		g.Xfers[k] = x
		st.Count("module_created_transfers", 1)
	}
	var ids []string
	for k := range g.Xfers {
		ids = append(ids, k)
	}
	sort.Strings(ids)
	var expiredNow []*xfer
	refundUsed := map[string]bool{}
	for _, k := range ids {
		x := g.Xfers[k]
		l := locs[k]
		terminal := x.Where == "executed" || x.Where == "refunded"
		if terminal {
			if len(l) > 0 {
				b.v(st, "C04", "terminal_transfer_reappeared", op.Kind, "%s was %s and is now at %s", k, x.Where, l[0].where)
			}
			continue
		}
		if len(l) == 0 {
			// disappeared: executed or refunded?
			pl := preLocs[k]
			was := x.Where
			if len(pl) > 0 {
				was = pl[0].where
			}
			bk := ""
			if len(was) > 6 && was[:6] == "batch:" {
				bk = x.Chain + "|" + splitBatch(was)
			}
			// a batch withdrawn in this very phase (an execution event released it) puts its transfers back into the pool
			// before the expiry sweep of the same EndBlocker runs
			releasedNow := false
			if bk != "" && !execd[bk] {
				_, had := preB[bk]
				_, has := postB[bk]
				releasedNow = had && !has
			}
			switch {
			case bk != "" && execd[bk]:
				x.Where = "executed"
				st.Count("transfers_executed", 1)
			case was == "pool" && (op.Kind == "Cancel" || op.Kind == "CancelUpper"):
				x.Where = "refunded" // checked by cancelOracle
			case (was == "pool" || releasedNow) && endBlock:
				// expiry refund
				expired := x.Created+b.timeoutDur() < now
				if !expired {
					b.v(st, "C12", "refunded_before_timeout", "refundExpiredTxs", "%s created %d removed at %d (timeout %d s)", k, x.Created, now, b.timeoutDur())
					b.v(st, "C04", "transfer_disappeared", "refundExpiredTxs", "%s left the pool at EndBlock without being expired", k)
				}
				// a refund towards the originating chain is a new module-created transfer to the originating address
				if x.Origin != "hub" && x.Origin != "" {
					issued := false
					for _, nk := range newIDs {
						if e := locs[nk][0].ent; e.ChainId == x.Origin && e.ExternalRecipient == x.OriginAddr && !refundUsed[nk] {
							issued, refundUsed[nk] = true, true
							break
						}
					}
					if !issued {
						b.v(st, "C04", "transfer_disappeared", "refundExpiredTxs", "%s (from %s on %s) left the pool at EndBlock but no refund transfer towards %s was created: it is nowhere", k, x.OriginAddr, x.Origin, x.Origin)
					}
				}
				expiredNow = append(expiredNow, x)
				x.Where = "refunded"
				st.Count("expiry_refunds", 1)
			default:
				b.v(st, "C04", "transfer_disappeared", op.Kind, "%s was at %s and is now nowhere (no execution event, no refund)", k, was)
				b.v(st, "C12", "transfer_removed_without_refund", op.Kind, "%s was at %s and has been removed: neither executed nor cancelled nor expired, and nothing was returned to %s", k, was, x.OriginAddr)
				x.Where = "refunded"
			}
			continue
		}
		x.Where = l[0].where
	}
	// C12: the expiry sweep runs in every EndBlocker, so no unbatched transfer older than the timeout survives one
	if endBlock {
		for ch, es := range post.Pool {
			for _, e := range es {
				// module-created transfers without a refund destination (refund re-sends, #fee, #commission)
				// have nobody to be returned to: they simply stay pending
				// ... and so does a transfer whose refund cannot be issued because governance took its token off the
				// originating chain's list (it is refunded once the token is listed again)
				if t := b.tokenByExt(ch, e.Token.ExternalTokenId); t != nil && (g.Delisted[e.RefundChainId+"|"+t.Denom] || g.Delisted[ch+"|"+t.Denom] || g.Delisted["repoint|"+ch+"|"+t.Denom]) {
					continue // ... or its own token is off the list: there is no denom to refund in
				}
				// ... or it was made towards a contract that is not the token's listed one NOW (made while the token had migrated,
				// and the migration was taken back since): refunded once that listing is back
				if t := b.tokenByExt(ch, e.Token.ExternalTokenId); t != nil && !g.Delisted["repoint|"+ch+"|"+t.Denom] && !strings.EqualFold(t.ExtID, e.Token.ExternalTokenId) && !(g.Delisted["dual|"+ch+"|"+t.Denom] && strings.EqualFold(hub.HexAddr("second-"+ch+"|"+t.Denom), e.Token.ExternalTokenId)) {
					continue
				}
				// the age of a transfer counts from its creation (the reference's own record of it), whatever the entry says now
				created := int64(e.CreatedAt)
				if x := g.Xfers[fmt.Sprintf("%s/%d", ch, e.Id)]; x != nil && x.Created < created {
					created = x.Created
				}
				if e.RefundChainId != "" && created+b.timeoutDur() < now {
					b.v(st, "C12", "overdue_transfer_not_refunded", "refundExpiredTxs", "%s/%d created at %d (the pool entry says %d) is still in the pool after the EndBlocker at %d (timeout %d s)", ch, e.Id, created, e.CreatedAt, now, b.timeoutDur())
				}
			}
		}
	}
	if len(expiredNow) > 0 {
		b.expiryOracle(in, g, expiredNow, newIDs, locs, preBal, postBal, st)
	}
	// status lifecycle (C04): user transfers only (module-created ones share the "#..." hashes)
	perHash := map[string]int{}
	for _, k := range ids {
		if x := g.Xfers[k]; !x.System {
			perHash[x.TxHash]++
		}
	}
	for _, k := range ids {
		x := g.Xfers[k]
		if x.System {
			continue
		}
		stt := in.Hub.GetTxStatus(ctx, x.TxHash).Status
		// 'refunded' is final for the hash it is reported under
		if g.RefundedHash[x.TxHash] && stt != mhubtypes.TX_STATUS_REFUNDED {
			b.v(st, "C04", "refunded_status_not_final", "SetTxStatus", "tx %s was reported REFUNDED and is now %s", x.TxHash[:8], stt)
		}
		if stt == mhubtypes.TX_STATUS_REFUNDED {
			g.RefundedHash[x.TxHash] = true
		}
		shared := perHash[x.TxHash] > 1 // several transfers of one transaction share ONE status record (it is keyed by the tx hash)
		ok := true
		switch {
		case x.Where == "executed":
			ok = stt == mhubtypes.TX_STATUS_BATCH_EXECUTED
		case x.Where == "refunded":
			ok = stt == mhubtypes.TX_STATUS_REFUNDED
		case x.Where == "pool":
			ok = stt == mhubtypes.TX_STATUS_NOT_FOUND || stt == mhubtypes.TX_STATUS_DEPOSIT_RECEIVED || stt == mhubtypes.TX_STATUS_BATCH_CREATED
		default:
			ok = stt == mhubtypes.TX_STATUS_BATCH_CREATED
		}
		if !ok && shared {
			b.v(st, "C04", "status_disagrees_with_location", "SetTxStatus(transfers sharing one transaction hash)", "%s is %s but the status reported for its transaction %s is %s (the transaction carried %d transfers)", k, x.Where, x.TxHash[:8], stt, perHash[x.TxHash])
		} else if !ok {
			b.v(st, "C04", "status_disagrees_with_location", "SetTxStatus", "%s is %s but status is %s", k, x.Where, stt)
		}
	}

	// ---- C01: a cross-chain deposit puts at most what it locked in flight (the transfer it creates carries its tx hash)
	if endBlock && b.Cfg.Prop == "C01" {
		for _, p := range g.Pending {
			if p.Kind != "dep-chain" || p.TxHash == "" {
				continue
			}
			worth := new(big.Rat)
			n := 0
			for _, k := range newIDs {
				e := locs[k][0].ent
				if e.TxHash != p.TxHash {
					continue
				}
				if t := b.tokenByExt(e.ChainId, e.Token.ExternalTokenId); t != nil {
					worth.Add(worth, toHubRat(e.Token.Amount.Add(e.Fee.Amount).Add(e.ValCommission.Amount).BigInt(), t.Dec))
					n++
				}
			}
			locked, _ := new(big.Rat).SetString(p.Locked)
			if n > 0 && worth.Cmp(locked) > 0 {
				st.Violate("C01", "cross_chain_transfer_exceeds_locked_deposit", "Handle(TransferToChainEvent->chain)", "deposit %s locked %s hub units on %s but the transfer it created towards %s is worth %s", p.TxHash, locked.RatString(), p.Chain, p.Recv, worth.RatString())
			}
			if n > 0 {
				st.Count("cross_chain_transfers_checked", 1)
			}
		}
	}

	// ---- C01: "supply grows only by exactly the amount locked by an observed deposit": in an EndBlocker that applies deposits
	// only (no execution, no expiry) the total supply of a denom - the module's own accounts included - grows by at most what
	// those deposits locked
	if endBlock && b.Cfg.Prop == "C01" && len(g.Pending) > 0 && len(expiredNow) == 0 {
		only := true
		lockedBy := map[string]*big.Rat{}
		for _, p := range g.Pending {
			if p.Kind != "dep-hub" && p.Kind != "dep-chain" {
				only = false
				break
			}
			if lockedBy[p.Denom] == nil {
				lockedBy[p.Denom] = new(big.Rat)
			}
			l, _ := new(big.Rat).SetString(p.Locked)
			lockedBy[p.Denom].Add(lockedBy[p.Denom], l)
		}
		if only {
			for d, l := range lockedBy {
				grown := new(big.Rat).SetInt(post.Supply[d].Sub(pre.Supply[d]).BigInt())
				if grown.Cmp(l) > 0 {
					st.Violate("C01", "supply_grew_by_more_than_the_deposits_locked", "Handle("+pendingKinds(g.Pending)+")", "the deposits applied in this EndBlocker locked %s %s in external custody, the total supply of %s (module accounts included) grew by %s", l.RatString(), d, d, grown.RatString())
				}
			}
		}
	}

	// ---- C01: vouchers are minted only for what an observed deposit locked or what a refund returns. An EndBlocker that
	// applies no event and leaves pool and batches exactly as they were has no reason to mint: the balances of the module
	// account and of its transit address stay as they are
	if endBlock && b.Cfg.Prop == "C01" && len(g.Pending) == 0 && len(newIDs) == 0 && len(expiredNow) == 0 && sameLocs(preLocs, locs) {
		for _, acc := range []string{"temp", "module"} {
			if !preBal[acc].IsEqual(postBal[acc]) {
				st.Violate("C01", "vouchers_minted_without_deposit_or_refund", "EndBlocker", "no event applied, no transfer created, refunded or moved, yet the %s account went from %s to %s in this EndBlocker", acc, preBal[acc], postBal[acc])
			}
		}
	}

	// ---- C12: an EndBlocker that applies no event only sweeps expired transfers. A refund to a hub account leaves
	// the module's accounts as they were; a refund towards the originating chain passes through the transit address and is
	// burnt into the onward transfer in the same step; a refund that cannot be issued takes no effect at all. Either way
	// nothing stays behind on the module account or the transit address
	// (C12's alphabet has no cold-storage proposals: an expired cold-storage transfer is "refunded" to its sender, the
	// transit address itself - vouchers that circulate nowhere, see C01's assumptions)
	if endBlock && b.Cfg.Prop == "C12" && len(g.Pending) == 0 {
		for _, acc := range []string{"temp", "module"} {
			if !preBal[acc].IsEqual(postBal[acc]) {
				b.v(st, b.Cfg.Prop, "expiry_sweep_left_vouchers_on_a_module_account", "refundExpiredTxs", "no event was applied in this EndBlocker (%d transfers expired), yet the %s account went from %s to %s", len(expiredNow), acc, preBal[acc], postBal[acc])
			}
		}
	}

	// ---- C01: a cold storage proposal schedules a move between two custody locations; it mints exactly what it schedules
	// (and burns it into the transfer), so nothing stays behind on the module's accounts
	if op.Kind == "ColdStorage" && b.Cfg.Prop == "C01" {
		for _, acc := range []string{"temp", "module"} {
			if !preBal[acc].IsEqual(postBal[acc]) {
				st.Violate("C01", "cold_storage_proposal_minted_more_than_it_scheduled", "ColdStorageTransfer", "proposal %s: the %s account went from %s to %s", op, acc, preBal[acc], postBal[acc])
			}
		}
	}

	// ---- C01 solvency
	b.solvency(in, g, op, pre, post, preBal, postBal, st, endBlock)
}

func sameLocs(a, b map[string][]loc) bool {
	if len(a) != len(b) {
		return false
	}
	for k, la := range a {
		lb := b[k]
		if len(la) != len(lb) {
			return false
		}
		for i := range la {
			if la[i].where != lb[i].where {
				return false
			}
		}
	}
	return true
}

func splitBatch(where string) string { // "batch:<token>:<nonce>" -> "<token>|<nonce>"
	rest := where[6:]
	for i := len(rest) - 1; i >= 0; i-- {
		if rest[i] == ':' {
			return rest[:i] + "|" + rest[i+1:]
		}
	}
	return rest
}

// cancelOracle checks a MsgCancelSendToExternal result against the reference ledger (C12).
func (b *Bridge) cancelOracle(in *hub.Instance, g *bridgeGhost, ch string, id uint64, sender string, ok bool, pre *view, preBal map[string]sdk.Coins, st *engine.Step) {
	k := fmt.Sprintf("%s/%d", ch, id)
	x := g.Xfers[k]
	preLoc := locate(pre)[k]
	if !ok {
		return // rejecting is always allowed by the property ("can be cancelled only ...")
	}
	if x == nil || len(preLoc) == 0 {
		b.v(st, "C12", "cancel_accepted_for_unknown_transfer", "cancelSendToExternal", "cancel of %s accepted but no such pending transfer", k)
		return
	}
	if preLoc[0].where != "pool" {
		b.v(st, "C12", "cancel_accepted_while_batched", "cancelSendToExternal", "cancel of %s accepted while it is in %s", k, preLoc[0].where)
	}
	if x.Sender != sender {
		b.v(st, "C12", "cancel_accepted_from_other_sender", "cancelSendToExternal", "cancel of %s (sender %s) accepted from %s", k, x.Sender, sender)
	}
	post := b.view(in)
	if len(locate(post)[k]) != 0 {
		b.v(st, "C12", "cancelled_transfer_not_removed", "cancelSendToExternal", "%s still present after cancel", k)
	}
	// refund to the sender on the hub: exactly the recorded amount+fee+commission converted back
	e := preLoc[0].ent
	tok := b.tokenByExt(ch, e.Token.ExternalTokenId)
	want := hubAmount(e, tok.Dec)
	postBal := b.balances(in)
	for i, u := range b.Usr {
		name := fmt.Sprintf("u%d", i)
		delta := postBal[name].AmountOf(tok.Denom).Sub(preBal[name].AmountOf(tok.Denom))
		if u.String() == x.Sender {
			if !delta.Equal(want) {
				b.v(st, "C12", "cancel_refund_amount_wrong", "cancelSendToExternal", "%s: sender received %s, recorded amount+fee+commission is %s hub units", k, delta, want)
			}
		} else if !delta.IsZero() {
			b.v(st, "C12", "cancel_refund_to_wrong_party", "cancelSendToExternal", "%s: %s balance changed by %s", k, name, delta)
		}
	}
	taken, _ := sdk.NewIntFromString(x.Taken)
	if want.GT(taken) {
		b.v(st, "C12", "refund_exceeds_amount_taken", "cancelSendToExternal", "%s: refund %s > taken %s", k, want, taken)
	}
	if stt := in.Hub.GetTxStatus(in.Ctx(), x.TxHash).Status; stt != mhubtypes.TX_STATUS_REFUNDED {
		b.v(st, "C12", "cancelled_transfer_status_not_refunded", "SetTxStatus", "%s status %s", k, stt)
	}
}

// expiryOracle checks the refunds of the transfers that expired in this EndBlock (C12).
// The C12 alphabet has no hub-bound deposits, so user balance changes in EndBlock are refunds only.
func (b *Bridge) expiryOracle(in *hub.Instance, g *bridgeGhost, expired []*xfer, newIDs []string, locs map[string][]loc, preBal, postBal map[string]sdk.Coins, st *engine.Step) {
	if b.Cfg.Prop != "C12" {
		return
	}
	wantUser := map[string]sdk.Int{} // "uN|denom" -> expected total refund
	usedNew := map[string]bool{}
	for _, x := range expired {
		k := fmt.Sprintf("%s/%d", x.Chain, x.ID)
		tok := b.token(x.Chain, x.Denom)
		if tok == nil {
			continue
		}
		amt, _ := sdk.NewIntFromString(x.Amt)
		fee, _ := sdk.NewIntFromString(x.Fee)
		com, _ := sdk.NewIntFromString(x.Com)
		want := refConvert(amt.Add(fee).Add(com), tok.Dec, 18)
		taken, _ := sdk.NewIntFromString(x.Taken)
		if want.GT(taken) {
			b.v(st, "C12", "refund_exceeds_amount_taken", "cancelSendToExternal", "%s: refund %s > taken %s", k, want, taken)
		}
		switch {
		case x.Origin == "hub":
			hit := false
			for i, u := range b.Usr {
				if u.String() == x.OriginAddr {
					key := fmt.Sprintf("u%d|%s", i, tok.Denom)
					if _, ok := wantUser[key]; !ok {
						wantUser[key] = sdk.ZeroInt()
					}
					wantUser[key] = wantUser[key].Add(want)
					hit = true
				}
			}
			if !hit {
				// sender is not one of the tracked users (TempAddress for cold storage): nothing to compare
			}
			if !x.System {
				if stt := in.Hub.GetTxStatus(in.Ctx(), x.TxHash).Status; stt != mhubtypes.TX_STATUS_REFUNDED {
					b.v(st, "C12", "expired_transfer_status_not_refunded", "SetTxStatus", "%s status %s", k, stt)
				}
			}
		case x.Origin == "":
			b.v(st, "C12", "expired_transfer_refunded_to_nobody", "cancelSendToExternal(RefundChainId==\"\")", "%s (module-created, tx hash %q) expired: %s %s minted to the module account and the entry dropped; nobody is refunded", k, x.TxHash, want, tok.Denom)
		default:
			// foreign origin: a new outgoing transfer to OriginAddr on the Origin chain for the same value
			found := false
			ot := b.token(x.Origin, x.Denom)
			for _, nk := range newIDs {
				if usedNew[nk] || ot == nil {
					continue
				}
				e := locs[nk][0].ent
				if e.ChainId == x.Origin && e.ExternalRecipient == x.OriginAddr && e.Token.ExternalTokenId == ot.ExtID &&
					e.Token.Amount.Equal(refConvert(want, 18, ot.Dec)) && e.Fee.Amount.IsZero() && e.ValCommission.Amount.IsZero() {
					found, usedNew[nk] = true, true
					break
				}
			}
			if !found {
				b.v(st, "C12", "foreign_refund_transfer_missing", "cancelSendToExternal", "%s expired: no new transfer of %s hub units to %s on %s", k, want, x.OriginAddr, x.Origin)
			}
			st.Count("foreign_origin_refunds", 1)
		}
	}
	for i := range b.Usr {
		name := fmt.Sprintf("u%d", i)
		for _, t := range b.Cfg.Tokens {
			key := name + "|" + t.Denom
			want, ok := wantUser[key]
			if !ok {
				want = sdk.ZeroInt()
			}
			delta := postBal[name].AmountOf(t.Denom).Sub(preBal[name].AmountOf(t.Denom))
			if !delta.Equal(want) {
				b.v(st, "C12", "expiry_refund_amount_wrong", "refundExpiredTxs", "%s %s: balance changed by %s in EndBlock, expired transfers of this sender total %s", name, t.Denom, delta, want)
			}
			wantUser[key] = want
		}
	}
}

// solvency evaluates the C01 inequality with exact rationals.
func (b *Bridge) solvency(in *hub.Instance, g *bridgeGhost, op engine.Op, pre, post *view, preBal, postBal map[string]sdk.Coins, st *engine.Step, endBlock bool) {
	if b.Cfg.Prop != "C01" {
		return
	}
	denoms := map[string]bool{}
	for _, t := range b.Cfg.Tokens {
		denoms[t.Denom] = true
	}
	for d := range denoms {
		// circulating supply: vouchers parked on the module account or on the keyless temporary
		// address cannot be spent by anyone (they leave only through createSendToExternal, which burns
		// exactly what it records), so they are not in circulation
		circ := post.Supply[d].Sub(postBal["temp"].AmountOf(d)).Sub(postBal["module"].AmountOf(d))
		liab := new(big.Rat).SetInt(circ.BigInt())
		cust := new(big.Rat)
		for _, t := range b.Cfg.Tokens {
			if t.Denom != d {
				continue
			}
			if c := g.Custody[t.Chain+"|"+t.ExtID]; c != nil {
				cust.Add(cust, toHubRat(c, t.Dec))
			}
			for _, e := range post.Pool[t.Chain] {
				if isCold(t.Chain, e.ExternalRecipient) {
					continue // a move between two custody locations is not a liability
				}
				if e.Token.ExternalTokenId == t.ExtID {
					liab.Add(liab, toHubRat(e.Token.Amount.Add(e.Fee.Amount).Add(e.ValCommission.Amount).BigInt(), t.Dec))
				}
			}
			for _, bt := range post.Batches[t.Chain] {
				if bt.ExternalTokenId != t.ExtID {
					continue
				}
				paid := false
				for _, e := range g.ExecUnobs {
					if e.Chain == t.Chain && e.Token == t.ExtID && e.Nonce == bt.BatchNonce {
						paid = true
					}
				}
				for _, e := range bt.Transactions {
					if isCold(t.Chain, e.ExternalRecipient) {
						continue
					}
					liab.Add(liab, toHubRat(e.Fee.Amount.Add(e.ValCommission.Amount).BigInt(), t.Dec))
					if !paid {
						liab.Add(liab, toHubRat(e.Token.Amount.BigInt(), t.Dec))
					}
				}
			}
		}
		debt := new(big.Rat)
		if s, ok := g.Debt[d]; ok {
			debt.SetString(s)
		}
		excess := new(big.Rat).Sub(liab, new(big.Rat).Add(cust, debt))
		if excess.Sign() > 0 {
			site := op.Kind
			if endBlock {
				site = "Handle(" + pendingKinds(g.Pending) + ")"
			}
			st.Violate("C01", "vouchers_exceed_custody", site, "denom %s: supply+in-flight = %s hub units, custody = %s (+recorded debt %s): unbacked %s", d, liab.RatString(), cust.RatString(), debt.RatString(), excess.RatString())
			// record the deviation so that only further deviations are reported along this path
			g.Debt[d] = new(big.Rat).Add(debt, excess).RatString()
		}
	}
	if endBlock {
		// executed batches whose event was applied are no longer "executed but unobserved"
		var rest []extBatch
		for _, e := range g.ExecUnobs {
			applied := false
			for _, p := range g.Pending {
				if p.Kind == "exec" && p.Chain == e.Chain && p.Token == e.Token && p.Nonce == e.Nonce {
					applied = true
				}
			}
			if !applied {
				rest = append(rest, e)
			}
		}
		g.ExecUnobs = rest
	}
	// user gains: a user balance may grow only through a deposit addressed to it or a refund of its own transfer
	for i := range b.Usr {
		name := fmt.Sprintf("u%d", i)
		for d := range denoms {
			delta := postBal[name].AmountOf(d).Sub(preBal[name].AmountOf(d))
			if !delta.IsPositive() {
				continue
			}
			allowed := new(big.Rat)
			if endBlock {
				for _, p := range g.Pending {
					if p.Kind == "dep-hub" && p.Recv == name && p.Denom == d {
						r, _ := new(big.Rat).SetString(p.Locked)
						allowed.Add(allowed, r)
					}
				}
			}
			// refunds of own transfers that left the pool in this phase
			for k, x := range g.Xfers {
				_ = k
				if x.Where == "refunded" && x.OriginAddr == b.Usr[i].String() && x.Denom == d {
					pl := locate(pre)[fmt.Sprintf("%s/%d", x.Chain, x.ID)]
					if len(pl) > 0 {
						t, _ := new(big.Rat).SetString(x.Taken)
						allowed.Add(allowed, t)
					}
				}
			}
			if new(big.Rat).SetInt(delta.BigInt()).Cmp(allowed) > 0 {
				site := op.Kind
				if endBlock {
					site = "Handle(" + pendingKinds(g.Pending) + ")"
				}
				st.Violate("C01", "account_gained_unlocked_vouchers", site, "%s gained %s %s but only %s was locked/refundable for it", name, delta, d, allowed.RatString())
			}
		}
	}
}

// isCold: governance cold storage addresses (keeper.GetColdStorageAddr) are custody locations.
func isCold(chain, addr string) bool {
	cold := map[string]string{"minter": "0x7072558b2b91e62dbed78e9a3453e5c9e01fec5e", "ethereum": "0x58BD8047F441B9D511aEE9c581aEb1caB4FE0b6d", "bsc": "0xbCc2Fa395c6198096855c932f4087cF1377d28EE"}
	return strings.EqualFold(cold[chain], addr)
}

func pendingKinds(p []pendingEvent) string {
	m := map[string]bool{}
	for _, e := range p {
		switch e.Kind {
		case "dep-hub":
			if e.Chain == "minter" {
				m["SendToHubEvent"] = true
			} else {
				m["TransferToChainEvent->hub"] = true
			}
		case "dep-chain":
			m["TransferToChainEvent->chain"] = true
		case "exec":
			m["BatchExecutedEvent"] = true
		}
	}
	var ks []string
	for k := range m {
		ks = append(ks, k)
	}
	sort.Strings(ks)
	s := ""
	for i, k := range ks {
		if i > 0 {
			s += ","
		}
		s += k
	}
	return s
}
