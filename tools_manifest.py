#!/usr/bin/env python3
"""Regenerates MANIFEST.json from the table below (single source of truth)."""
import json
ALL = ["C%02d" % i for i in range(1, 21)]
# id -> (category, technique, level text, level note, design ref)
CHECKS = {
 "C03": ("model_checking", "explicit-state BFS over the real keepers (snapshot/restore of the real KV stores), transition oracles",
         "All interleavings of validator claims (ahead, behind, conflicting, repeated) and block boundaries up to the stated depth are executed on the real msg server and EndBlocker; applied-list, Accepted flags, observed nonce and minted balance are checked after every tally.",
         "3 validators, 1 chain, deposit events; scripted staking table; bounds in evidence", "3 C03"),
}
PENDING = {i: "check not built yet in this session (planned, see DESIGN.md section 3)" for i in ALL if i not in CHECKS}
m = {
 "version": 1,
 "setup_cmd": "cd /verif && bash bin/setup",
 "hooks": {"guard": "verif", "enable": "none needed: checks build an external Go module with `replace github.com/MinterTeam/mhub2/module => /repo/module` (and go build -overlay for generated instrumentation); no guarded source in /repo",
           "baseline_off_cmd": "cd /repo/module && GOFLAGS=-mod=mod GOPROXY=off GOSUMDB=off go test -vet=off -count=1 ./x/...",
           "source_commits": [], "add_only": True},
 "engines": [{"name": "hubmc", "path": "mc", "serves_properties": sorted(CHECKS), "kind_free_text": "hand-written explicit-state model checker (BFS, canonical state hashing, watchdog, straight-line replay) driving the real Go keepers"}],
 "checks": [],
 "not_applicable": [{"property_id": i, "reason": r} for i, r in sorted(PENDING.items())],
 "notes": "bin/check <id> <tier> rebuilds from /repo's working tree on every call.",
}
for i in sorted(CHECKS):
    cat, tech, text, note, ref = CHECKS[i]
    m["checks"].append({
        "property_id": i, "quick_cmd": f"bin/check {i} quick", "thorough_cmd": f"bin/check {i} thorough",
        "evidence_file": f"/verif/evidence/{i}.json", "replay_cmd_template": ".build/hubmc replay {path}",
        "engine": "hubmc", "level_claimed": {"category": cat, "text": text, "design_ref": ref},
        "level_note": note, "technique": tech})
json.dump(m, open("/verif/MANIFEST.json", "w"), indent=1)
print("checks:", len(m["checks"]), "n/a:", len(m["not_applicable"]))
