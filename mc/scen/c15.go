package scen

import (
	"bytes"
	"fmt"
	"sort"

	sdk "github.com/cosmos/cosmos-sdk/types"

	"verifmc/engine"
	"verifmc/hub"

	mhubkeeper "github.com/MinterTeam/mhub2/module/x/mhub2/keeper"
	mhubtypes "github.com/MinterTeam/mhub2/module/x/mhub2/types"
	oraclekeeper "github.com/MinterTeam/mhub2/module/x/oracle/keeper"
	oracletypes "github.com/MinterTeam/mhub2/module/x/oracle/types"
)

// C15: genesis export/import round trip. At every block boundary reached by the bridge
// exploration: ExportGenesis (mhub2, oracle) -> JSON -> InitGenesis into a fresh instance whose
// other modules (bank, auth) carry the same state -> compare the module stores prefix by prefix;
// when they agree, apply every operation of a continuation alphabet to both and compare again.

var mhubPrefixNames = map[byte]string{
	mhubtypes.ValidatorExternalAddressKey: "ValidatorExternalAddress", mhubtypes.OrchestratorValidatorAddressKey: "OrchestratorValidatorAddress",
	mhubtypes.ExternalOrchestratorAddressKey: "ExternalOrchestratorAddress", mhubtypes.ExternalSignatureKey: "ExternalSignature(confirmations)",
	mhubtypes.ExternalEventVoteRecordKey: "ExternalEventVoteRecord", mhubtypes.OutgoingTxKey: "OutgoingTx", mhubtypes.SendToExternalKey: "SendToExternal(pool)",
	mhubtypes.LastEventNonceByValidatorKey: "LastEventNonceByValidator", mhubtypes.LastObservedEventNonceKey: "LastObservedEventNonce",
	mhubtypes.LatestSignerSetTxNonceKey: "LatestSignerSetTxNonce", mhubtypes.LastSlashedOutgoingTxBlockKey: "LastSlashedOutgoingTxBlock",
	mhubtypes.LastSlashedSignerSetTxNonceKey: "LastSlashedSignerSetTxNonce", mhubtypes.LastOutgoingBatchNonceKey: "LastOutgoingBatchNonce",
	mhubtypes.OutgoingSequence: "OutgoingSequence", mhubtypes.LastSendToExternalIDKey: "LastSendToExternalID", mhubtypes.LastExternalBlockHeightKey: "LastExternalBlockHeight",
	mhubtypes.TokenInfosKey: "TokenInfos", mhubtypes.LastUnBondingBlockHeightKey: "LastUnBondingBlockHeight", mhubtypes.LastObservedSignerSetKey: "LastObservedSignerSet",
	mhubtypes.TxStatusKey: "TxStatus", mhubtypes.TxFeeRecordKey: "TxFeeRecord",
}

var oraclePrefixNames = map[byte]string{1: "Claim", 2: "Attestation", 3: "CurrentEpoch", 4: "CurrentPrices", 5: "CurrentHolders"}

type c15Diff struct {
	Site   string
	Detail string
}

// roundTrip returns the per-prefix differences between the original module stores and the
// stores of an instance initialised from the exported genesis, plus that instance.
func c15RoundTrip(in *hub.Instance) ([]c15Diff, *hub.Instance, *hub.Snapshot, error) {
	orig := in.Snapshot() // block boundary (no open block)
	ctx := in.Ctx()
	gs := mhubkeeper.ExportGenesis(ctx, in.Hub)
	os := oraclekeeper.ExportGenesis(ctx, in.Oracle)
	// through JSON, as `export` / `init` do
	bz, err := in.Cdc.MarshalJSON(&gs)
	if err != nil {
		return nil, nil, nil, fmt.Errorf("marshal mhub2 genesis: %w", err)
	}
	var gs2 mhubtypes.GenesisState
	if err := in.Cdc.UnmarshalJSON(bz, &gs2); err != nil {
		return nil, nil, nil, fmt.Errorf("unmarshal mhub2 genesis: %w", err)
	}
	bz, err = in.Cdc.MarshalJSON(&os)
	if err != nil {
		return nil, nil, nil, fmt.Errorf("marshal oracle genesis: %w", err)
	}
	var os2 oracletypes.GenesisState
	if err := in.Cdc.UnmarshalJSON(bz, &os2); err != nil {
		return nil, nil, nil, fmt.Errorf("unmarshal oracle genesis: %w", err)
	}
	// new chain: bank/auth state carried over (their own genesis is not under test), module stores
	// and module params rebuilt from the exported genesis only
	base := &hub.Snapshot{Stores: map[string][]hub.KV{}, Height: orig.Height, Time: orig.Time, TxCount: orig.TxCount, Staking: orig.Staking}
	for _, n := range hub.StoreNames {
		switch n {
		case mhubtypes.StoreKey, oracletypes.StoreKey:
		case "params":
			for _, kv := range orig.Stores[n] {
				if bytes.HasPrefix(kv.K, []byte("mhub2/")) || bytes.HasPrefix(kv.K, []byte("oracle/")) {
					continue
				}
				base.Stores[n] = append(base.Stores[n], kv)
			}
		default:
			base.Stores[n] = orig.Stores[n]
		}
	}
	in2 := hub.New()
	in2.AnteSeq = in.AnteSeq
	in2.RestoreClosed(base)
	var ierr error
	func() {
		defer func() {
			if r := recover(); r != nil {
				ierr = fmt.Errorf("InitGenesis panicked: %v", r)
			}
		}()
		c2 := in2.Ctx()
		oraclekeeper.InitGenesis(c2, in2.Oracle, os2)
		mhubkeeper.InitGenesis(c2, in2.Hub, gs2)
	}()
	if ierr != nil {
		return nil, nil, nil, ierr
	}
	re := in2.Snapshot()
	var diffs []c15Diff
	cmp := func(store string, names map[byte]string) {
		type agg struct{ lost, extra, changed int }
		per := map[string]*agg{}
		nameOf := func(k []byte) string {
			name := names[k[0]]
			if name == "" {
				name = fmt.Sprintf("0x%02x", k[0])
			}
			return name
		}
		get := func(name string) *agg {
			if per[name] == nil {
				per[name] = &agg{}
			}
			return per[name]
		}
		// delegate-key indexes: entries not reachable from a validator's CURRENT binding are leftovers of a
		// superseded registration (SetDelegateKeys never deletes them); they are classified separately
		stale := map[string]bool{}
		if store == mhubtypes.StoreKey {
			kv := map[string][]byte{}
			for _, e := range orig.Stores[store] {
				kv[string(e.K)] = e.V
			}
			live := map[string]bool{}
			for _, e := range orig.Stores[store] {
				if e.K[0] != mhubtypes.ValidatorExternalAddressKey {
					continue
				}
				for _, ch := range []string{"ethereum", "minter", "bsc", "hub"} {
					if len(e.K) > 1+len(ch) && string(e.K[1:1+len(ch)]) == ch && len(e.K) == 1+len(ch)+20 {
						extKey := string(append(append([]byte{mhubtypes.ExternalOrchestratorAddressKey}, []byte(ch)...), e.V...))
						live[extKey] = true
						if orch, ok := kv[extKey]; ok {
							live[string(append(append([]byte{mhubtypes.OrchestratorValidatorAddressKey}, []byte(ch)...), orch...))] = true
						}
					}
				}
			}
			for k := range kv {
				if (k[0] == mhubtypes.ExternalOrchestratorAddressKey || k[0] == mhubtypes.OrchestratorValidatorAddressKey) && !live[k] {
					stale[k] = true
				}
			}
		}
		// absent and zero are the same value for the plain counters (their getters return 0 for a
		// missing key) and for an external-height record whose external height is 0
		trivial := func(kv hub.KV) bool {
			if store != mhubtypes.StoreKey {
				return false
			}
			switch kv.K[0] {
			case mhubtypes.LastObservedEventNonceKey, mhubtypes.LastOutgoingBatchNonceKey, mhubtypes.OutgoingSequence, mhubtypes.LatestSignerSetTxNonceKey,
				mhubtypes.LastSendToExternalIDKey, mhubtypes.LastEventNonceByValidatorKey:
				return bytes.Equal(kv.V, make([]byte, 8))
			case mhubtypes.LastExternalBlockHeightKey:
				var h mhubtypes.LatestBlockHeight
				if err := in.Cdc.Unmarshal(kv.V, &h); err == nil && h.ExternalHeight == 0 {
					return true
				}
			}
			return false
		}
		// keys of a chain that the Chains parameter does not (or no longer) list
		configured := map[string]bool{}
		for _, c := range in.Hub.GetChains(ctx) {
			configured[c.String()] = true
		}
		offChain := func(k string) bool {
			for _, c := range []string{"ethereum", "minter", "bsc", "hub"} {
				if len(k) > len(c) && k[1:1+len(c)] == c {
					return !configured[c]
				}
			}
			return false
		}
		a := map[string][]byte{}
		for _, kv := range orig.Stores[store] {
			if trivial(kv) {
				continue
			}
			a[string(kv.K)] = kv.V
		}
		for _, kv := range re.Stores[store] {
			if trivial(kv) {
				continue
			}
			v, ok := a[string(kv.K)]
			switch {
			case !ok:
				get(nameOf(kv.K)).extra++
			case !bytes.Equal(v, kv.V):
				get(nameOf(kv.K)).changed++
			}
			delete(a, string(kv.K))
		}
		for k := range a {
			if store == mhubtypes.StoreKey && offChain(k) {
				// ExportGenesis walks the chains of the Chains parameter only
				get("(state of a chain that is not in the Chains parameter)").lost++
				continue
			}
			if stale[k] {
				get(nameOf([]byte(k)) + "(stale entry of a superseded registration)").lost++
			} else {
				get(nameOf([]byte(k))).lost++
			}
		}
		var ps []string
		for p := range per {
			ps = append(ps, p)
		}
		sort.Strings(ps)
		for _, name := range ps {
			x := per[name]
			diffs = append(diffs, c15Diff{Site: store + "/" + name, Detail: fmt.Sprintf("%s: %d lost, %d changed, %d extra keys after export->init", name, x.lost, x.changed, x.extra)})
		}
	}
	cmp(mhubtypes.StoreKey, mhubPrefixNames)
	cmp(oracletypes.StoreKey, oraclePrefixNames)
	// module params
	// (an empty list is stored as [] or as null depending on how it was decoded: the same value)
	norm := func(v []byte) string {
		if string(v) == "null" {
			return "[]"
		}
		return string(v)
	}
	pa := map[string]string{}
	for _, kv := range orig.Stores["params"] {
		pa[string(kv.K)] = norm(kv.V)
	}
	for _, kv := range re.Stores["params"] {
		if pa[string(kv.K)] != norm(kv.V) {
			diffs = append(diffs, c15Diff{Site: "params/" + string(kv.K), Detail: "param differs after round trip"})
		}
		delete(pa, string(kv.K))
	}
	for k := range pa {
		diffs = append(diffs, c15Diff{Site: "params/" + k, Detail: "param lost in round trip"})
	}
	return diffs, in2, orig, nil
}

// c15Check is called by the bridge scenario at every block boundary (Prop == "C15").
func (b *Bridge) c15Check(in *hub.Instance, g *bridgeGhost, st *engine.Step) {
	diffs, in2, orig, err := c15RoundTrip(in)
	st.Count("round_trips", 1)
	if err != nil {
		st.Violate("C15", "genesis_round_trip_fails", "ExportGenesis/InitGenesis", "%v", err)
		return
	}
	for _, d := range diffs {
		st.Violate("C15", "state_not_preserved", d.Site, "%s", d.Detail)
	}
	if len(diffs) > 0 {
		st.Count("round_trips_with_differences", 1)
		return
	}
	st.Count("round_trips_identical", 1)
	// differential continuation: the restarted chain must react exactly like the original
	conts := []func(x *hub.Instance) string{
		func(x *hub.Instance) string { p := x.BeginBlock(5); return fmt.Sprint(p == nil) },
		func(x *hub.Instance) string {
			x.BeginBlock(5)
			r := x.DeliverMsg(mhubtypes.NewMsgSendToExternal("ethereum", b.Usr[0], hub.HexAddr("c"), sdk.NewInt64Coin("hub", 1000), sdk.NewInt64Coin("hub", 3)))
			x.EndBlock()
			return fmt.Sprint(r.OK())
		},
		func(x *hub.Instance) string {
			x.BeginBlock(b.timeoutDur() + 1)
			x.EndBlock()
			x.BeginBlock(5)
			x.EndBlock()
			return "expiry"
		},
	}
	origBoundary := orig
	reBoundary := in2.Snapshot()
	for i, c := range conts {
		x1, x2 := hub.New(), hub.New()
		x1.RestoreClosed(origBoundary)
		x2.RestoreClosed(reBoundary)
		r1, r2 := c(x1), c(x2)
		d1, d2 := x1.Snapshot().StoreDigest(), x2.Snapshot().StoreDigest()
		if r1 != r2 || d1 != d2 {
			st.Violate("C15", "restarted_chain_diverges", fmt.Sprintf("continuation#%d", i), "results %s vs %s, digests %s vs %s: %v", r1, r2, d1, d2, hub.DiffStores(x1.Snapshot(), x2.Snapshot()))
		}
		st.Count("continuations_compared", 1)
	}
}
