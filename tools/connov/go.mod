module connov

go 1.17
