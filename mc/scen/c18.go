package scen

import (
	"bytes"
	"fmt"
	"math/big"
	"runtime"
	"sort"
	"strings"
	"sync"
	"time"

	sdk "github.com/cosmos/cosmos-sdk/types"

	"verifmc/engine"
	"verifmc/hub"

	oracletypes "github.com/MinterTeam/mhub2/module/x/oracle/types"
)

// C18: prices / holders change only at an epoch boundary, with a quorum of DISTINCT
// validators (latest report of each counting once); stored prices are stake-weighted
// medians; a holder list needs > 2/3 of stake on the identical list.
type C18 struct {
	Vals   []hub.Validator
	Powers []int64
	Stranger sdk.AccAddress
	Lists    int // holder lists in the alphabet: L0..L2, with 4 also the empty list L3
}

func NewC18(powers []int64) *C18 {
	c := &C18{Powers: powers, Stranger: hub.User("stranger"), Lists: 3}
	for i := range powers {
		c.Vals = append(c.Vals, hub.NewValidator(string(rune('A'+i))))
	}
	return c
}

func (c *C18) ID() string               { return "C18" }
func (c *C18) Setup(in *hub.Instance)   {}
func (c *C18) SeedPaths() [][]engine.Op { return [][]engine.Op{{}} }
func (c *C18) Genesis() hub.Genesis {
	g := StdGenesis(c.Vals, c.Powers, []sdk.AccAddress{c.Stranger}, nil)
	for i := range g.Staking {
		if c.Powers[i] == 0 {
			g.Staking[i].Power = 7
			g.Staking[i].Bonded = false
		}
	}
	return g
}

var c18Names = []string{"eth", "ethereum/gas", "bnb", "bsc/gas", "hub"}

// price sets: value of every required name; set 2 omits a required price
func c18Prices(set int64) *oracletypes.Prices {
	base := map[int64]int64{0: 100, 1: 300, 3: 200, 4: 300, 5: 300}[set]
	var l []*oracletypes.Price
	for i, n := range c18Names {
		if set == 2 && i == 4 {
			continue
		}
		b := base
		if set == 2 {
			b = 500
		}
		l = append(l, &oracletypes.Price{Name: n, Value: sdk.NewDec(b + int64(i))})
		if set == 4 {
			// set 4 = set 1 with every entry listed twice: still ONE report of that validator
			l = append(l, &oracletypes.Price{Name: n, Value: sdk.NewDec(b + int64(i))})
		}
	}
	if set == 5 {
		// set 5 = set 1 plus two further names that differ from a required one only in letter case: other
		// names, not a second and third report of "eth"
		l = append(l, &oracletypes.Price{Name: "ETH", Value: sdk.NewDec(9000)}, &oracletypes.Price{Name: "Eth", Value: sdk.NewDec(9000)})
	}
	return &oracletypes.Prices{List: l}
}

func c18Holders(list int64) *oracletypes.Holders {
	switch list {
	case 0:
		return &oracletypes.Holders{List: []*oracletypes.Holder{{Address: "0xaa", Value: sdk.NewInt(5)}, {Address: "0xbb", Value: sdk.NewInt(7)}}}
	case 1: // same content as list 0, other order (identical list)
		return &oracletypes.Holders{List: []*oracletypes.Holder{{Address: "0xbb", Value: sdk.NewInt(7)}, {Address: "0xaa", Value: sdk.NewInt(5)}}}
	case 3: // the empty list: nobody holds anything any more
		return &oracletypes.Holders{}
	default:
		return &oracletypes.Holders{List: []*oracletypes.Holder{{Address: "0xaa", Value: sdk.NewInt(6)}}}
	}
}

func holdersCanon(h *oracletypes.Holders) string {
	if h == nil {
		return "<nil>"
	}
	var xs []string
	for _, x := range h.List {
		xs = append(xs, x.Address+":"+x.Value.String())
	}
	sort.Strings(xs)
	return strings.Join(xs, ",")
}

type c18Ghost struct {
	// latest accepted report per epoch/validator
	Price   map[string]int64 // "epoch/val" -> price set
	Holders map[string]int64
	NClaims map[string]int // "epoch/val/type" -> number of accepted claims (non-vacuity)
}

func (g *c18Ghost) Clone() Ghost {
	n := &c18Ghost{Price: map[string]int64{}, Holders: map[string]int64{}, NClaims: map[string]int{}}
	for k, v := range g.Price {
		n.Price[k] = v
	}
	for k, v := range g.Holders {
		n.Holders[k] = v
	}
	for k, v := range g.NClaims {
		n.NClaims[k] = v
	}
	return n
}
func (g *c18Ghost) Canon() string {
	var ks []string
	for k, v := range g.Price {
		ks = append(ks, fmt.Sprintf("p%s=%d", k, v))
	}
	for k, v := range g.Holders {
		ks = append(ks, fmt.Sprintf("h%s=%d", k, v))
	}
	sort.Strings(ks)
	return strings.Join(ks, ",")
}
func (c *C18) NewGhost(in *hub.Instance) Ghost {
	return &c18Ghost{Price: map[string]int64{}, Holders: map[string]int64{}, NClaims: map[string]int{}}
}

func (c *C18) Ops(s *HState) []engine.Op {
	ops := []engine.Op{engine.OpN("Next"), engine.OpN("Boundary")}
	for v := range c.Vals {
		for _, set := range []int64{0, 1, 3, 2} {
			ops = append(ops, engine.OpN("Price", v, 0, set))
		}
		ops = append(ops, engine.OpN("Price", v, -1, 0), engine.OpN("Price", v, 1, 1))
		if v == 0 {
			ops = append(ops, engine.OpN("Price", v, 0, 4)) // every name listed twice
			ops = append(ops, engine.OpN("Price", v, 0, 5)) // case variants of a required name as further names
		}
		for l := 0; l < c.Lists; l++ {
			ops = append(ops, engine.OpN("Holders", v, 0, l))
		}
		ops = append(ops, engine.OpN("Holders", v, -1, 0), engine.OpN("Holders", v, 1, 0))
	}
	ops = append(ops, engine.OpN("Price", -1, 0, 0), engine.OpN("Holders", -1, 0, 0))
	return ops
}

func (c *C18) Do(in *hub.Instance, gg Ghost, op engine.Op, st *engine.Step) {
	g := gg.(*c18Ghost)
	ctx := in.Ctx()
	epoch := in.Oracle.GetCurrentEpoch(ctx)
	pre := c.stored(in)
	switch op.Kind {
	case "Price", "Holders":
		v, off, set := op.I[0], op.I[1], op.I[2]
		claimer := c.Stranger
		if v >= 0 {
			claimer = c.Vals[v].Acc
		}
		ep := uint64(int64(epoch) + off)
		var msg sdk.Msg
		if op.Kind == "Price" {
			msg = &oracletypes.MsgPriceClaim{Epoch: ep, Prices: c18Prices(set), Orchestrator: claimer.String()}
		} else {
			msg = &oracletypes.MsgHoldersClaim{Epoch: ep, Holders: c18Holders(set), Orchestrator: claimer.String()}
		}
		r := in.DeliverMsg(msg)
		st.Obs = fmt.Sprint(r.OK())
		if r.OK() && off == 0 && v >= 0 {
			k := fmt.Sprintf("%d/%d", epoch, v)
			if op.Kind == "Price" {
				g.Price[k] = set
			} else {
				g.Holders[k] = set
			}
			g.NClaims[k+op.Kind]++
			if g.NClaims[k+op.Kind] > 1 {
				st.Count("repeated_claims", 1)
			}
			st.Count("claims_accepted", 1)
		}
		if r.OK() && v < 0 {
			// a stranger's claim that "succeeds" must not be stored: checked through the change oracle below
			st.Count("stranger_claim_ok", 1)
		}
		c.changeOracle(in, g, pre, false, epoch, st)
	case "Next":
		boundary := in.Height%5 == 0
		if p := in.NextBlock(5); BlockFailure(st, p) {
			return
		}
		c.changeOracle(in, g, pre, boundary, epoch, st)
	case "Boundary":
		for {
			boundary := in.Height%5 == 0
			pre = c.stored(in)
			ep := in.Oracle.GetCurrentEpoch(in.Ctx())
			if p := in.NextBlock(5); BlockFailure(st, p) {
				return
			}
			c.changeOracle(in, g, pre, boundary, ep, st)
			if boundary {
				break
			}
		}
	}
}

type c18Stored struct {
	prices  []byte
	holders []byte
}

func (c *C18) stored(in *hub.Instance) c18Stored {
	return c18Stored{prices: in.RawGet(oracletypes.StoreKey, oracletypes.CurrentPricesKey), holders: in.RawGet(oracletypes.StoreKey, oracletypes.CurrentHoldersKey)}
}

func (c *C18) changeOracle(in *hub.Instance, g *c18Ghost, pre c18Stored, boundary bool, epoch uint64, st *engine.Step) {
	post := c.stored(in)
	pc := !bytes.Equal(pre.prices, post.prices)
	hc := !bytes.Equal(pre.holders, post.holders)
	if boundary {
		// the other direction for holder lists: a list that more than two thirds of the stake reported identically in
		// this epoch is the list in force afterwards (a list that stays behind keeps discounts nobody attests any more)
		total, by := int64(0), map[string]int64{}
		for i, v := range in.Staking.Vals {
			if !v.Bonded {
				continue
			}
			total += v.Power
			if l, ok := g.Holders[fmt.Sprintf("%d/%d", epoch, i)]; ok && i < len(c.Vals) {
				by[holdersCanon(c18Holders(l))] += v.Power
			}
		}
		for list, w := range by {
			if 3*w > 2*total {
				st.Count("holder_lists_attested", 1)
				now := holdersCanon(in.Oracle.GetHolders(in.Ctx()))
				if now == "<nil>" {
					now = "" // no stored list and the empty list are the same thing: nobody has a discount
				}
				if now != list {
					st.Violate("C18", "attested_holder_list_not_in_force", "storeHolders", "epoch %d: {%s} reported identically by %d of %d stake, list in force afterwards {%s}", epoch, list, w, total, now)
				}
			}
		}
	}
	if !pc && !hc {
		return
	}
	if !boundary {
		st.Violate("C18", "changed_outside_epoch_boundary", "oracle", "prices changed=%v holders changed=%v in a transition that is not an epoch boundary", pc, hc)
		return
	}
	// stakes at the boundary
	total := int64(0)
	stake := map[int]int64{}
	for i, v := range in.Staking.Vals {
		if v.Bonded {
			total += v.Power
			stake[i] = v.Power
		}
	}
	if pc {
		st.Count("price_updates", 1)
		// distinct bonded claimers of this epoch
		sum := int64(0)
		type rep struct {
			set   int64
			stake int64
		}
		var reps []rep
		for i := range c.Vals {
			if set, ok := g.Price[fmt.Sprintf("%d/%d", epoch, i)]; ok {
				sum += stake[i]
				if stake[i] > 0 {
					reps = append(reps, rep{set, stake[i]})
				}
			}
		}
		if 100*sum < 66*total {
			st.Violate("C18", "prices_updated_below_66_percent_of_distinct_stake", "tryAttestation/voteForAttestation",
				"epoch %d: prices updated although distinct claimers hold %d of %d stake (%.1f%%)", epoch, sum, total, 100*float64(sum)/float64(total))
			return
		}
		// weighted median per name
		prices := in.Oracle.GetPrices(in.Ctx())
		for i, name := range c18Names {
			var stored sdk.Dec
			found := false
			for _, p := range prices.GetList() {
				if p.Name == name {
					stored, found = p.Value, true
				}
			}
			type wv struct {
				v sdk.Dec
				w int64
			}
			var vals []wv
			W := int64(0)
			for _, r := range reps {
				for _, p := range c18Prices(r.set).List {
					if p.Name == name {
						vals = append(vals, wv{p.Value, r.stake})
						W += r.stake
						break // one report per validator and name, however often the name is listed
					}
				}
			}
			_ = i
			if len(vals) == 0 {
				continue
			}
			if !found {
				st.Violate("C18", "reported_price_not_stored", "AttestationHandler.Handle", "epoch %d: %s reported but not stored", epoch, name)
				continue
			}
			below, above := int64(0), int64(0)
			for _, x := range vals {
				if x.v.LT(stored) {
					below += x.w
				}
				if x.v.GT(stored) {
					above += x.w
				}
			}
			// tolerance for the module's 16-bit power normalisation: n/65535 of W
			tol := new(big.Rat).SetFrac64(int64(len(vals))*W, 65535)
			half := new(big.Rat).SetFrac64(W, 2)
			lim := new(big.Rat).Add(half, tol)
			if new(big.Rat).SetInt64(below).Cmp(lim) > 0 || new(big.Rat).SetInt64(above).Cmp(lim) > 0 {
				st.Violate("C18", "stored_price_not_weighted_median", "AttestationHandler.Handle", "epoch %d %s: stored %s, weight below %d, above %d, total %d; reports %v", epoch, name, stored, below, above, W, vals)
			}
		}
	}
	if hc {
		st.Count("holder_updates", 1)
		adopted := holdersCanon(in.Oracle.GetHolders(in.Ctx()))
		if adopted == "<nil>" {
			adopted = "" // the empty list, adopted: stored as nothing
		}
		same := int64(0)
		for i := range c.Vals {
			if l, ok := g.Holders[fmt.Sprintf("%d/%d", epoch, i)]; ok && holdersCanon(c18Holders(l)) == adopted {
				same += stake[i]
			}
		}
		if 3*same <= 2*total {
			st.Violate("C18", "holders_adopted_without_two_thirds_identical", "AttestationHandler.Handle", "epoch %d: adopted list {%s} reported identically by %d of %d stake", epoch, adopted, same, total)
		}
	}
}

// ---------------------------------------------------------------------------------------------
// near-tie grid: power vectors in which one side of a two-value report holds just over / just under half
// of the stake. The stored price must be the value of the heavier side (exact stakes; the totals are far
// below 65535/n, so the module's 16-bit normalisation cannot change the majority).

type c18GridCase struct {
	Powers []int64
	Low    []bool // validator i reports the low value (100) instead of the high one (300)
	// holder-list cases: Holders[i] = 0 validator i reports nothing, 1 list L0, 2 list L2 (another list), 3 list L1 (L0 in another order),
	// 4 / 5 two one-entry lists whose addresses are the single bytes 0xfe / 0xff, 6 / 7 a two-entry list and a one-entry list whose
	// address spells the first one's separator
	Holders []int
	Prior   int // holder-list cases: a list (code as above) every validator reports in an epoch before, 0 none; code 8 is the empty list
}

// c18HolderGridCases: holder lists reported by a stake share at, just below and just above two thirds, with and without
// validators so small that their share of the 16-bit normalised power rounds to nothing.
func c18HolderGridCases() []c18GridCase {
	var out []c18GridCase
	// whale + dust report L0 (share <= 2/3 in the first three, > 2/3 in the others), the rival reports L2 or nothing
	for _, riv := range []int{0, 2} {
		out = append(out,
			c18GridCase{Powers: []int64{1_999_990, 1_000_008, 1, 1}, Holders: []int{1, riv, 1, 1}},            // 1999992 of 3000000
			c18GridCase{Powers: []int64{1_999_990, 1_000_005, 1, 1, 1, 1, 1}, Holders: []int{1, riv, 1, 1, 1, 1, 1}}, // 1999995 of 3000000
			c18GridCase{Powers: []int64{1_999_998, 1_000_000, 1, 1}, Holders: []int{1, riv, 1, 1}},            // exactly two thirds
			c18GridCase{Powers: []int64{2_000_010, 999_988, 1, 1}, Holders: []int{1, riv, 1, 1}},              // above two thirds
			c18GridCase{Powers: []int64{20, 10, 0}, Holders: []int{1, riv, 0}},                                 // exactly two thirds, small stakes
			c18GridCase{Powers: []int64{21, 10, 0}, Holders: []int{1, riv, 0}},
			c18GridCase{Powers: []int64{10, 10, 10}, Holders: []int{1, 1, riv}},
			c18GridCase{Powers: []int64{10, 10, 9}, Holders: []int{1, 1, riv}},
			c18GridCase{Powers: []int64{10, 10, 10}, Holders: []int{1, 3, riv}}, // two thirds on one list in two orders
			c18GridCase{Powers: []int64{10, 10, 9}, Holders: []int{1, 3, riv}})
	}
	out = append(out, c18GridCase{Powers: []int64{34, 33, 33}, Holders: []int{4, 5, 5}}, c18GridCase{Powers: []int64{33, 33, 34}, Holders: []int{5, 5, 4}})
	out = append(out, c18GridCase{Powers: []int64{34, 33, 33}, Holders: []int{6, 7, 7}}, c18GridCase{Powers: []int64{33, 33, 34}, Holders: []int{7, 7, 6}})
	// a list is in force from an earlier epoch; then everybody (or just over two thirds) reports the empty list, another list, or
	// not enough agree
	for _, prior := range []int{6, 1} {
		out = append(out,
			c18GridCase{Powers: []int64{10, 10, 10}, Holders: []int{8, 8, 8}, Prior: prior},
			c18GridCase{Powers: []int64{34, 33, 33}, Holders: []int{8, 8, 0}, Prior: prior},
			c18GridCase{Powers: []int64{34, 33, 33}, Holders: []int{8, 0, 0}, Prior: prior},
			c18GridCase{Powers: []int64{10, 10, 10}, Holders: []int{2, 2, 2}, Prior: prior},
			c18GridCase{Powers: []int64{10, 10, 10}, Holders: []int{8, 8, 2}, Prior: prior})
	}
	return out
}

func c18RunHolderGrid(in *hub.Instance, cs c18GridCase) (string, *engine.Violation) {
	c := NewC18(cs.Powers)
	in.InitGenesis(c.Genesis())
	epoch := in.Oracle.GetCurrentEpoch(in.Ctx())
	before := holdersCanon(in.Oracle.GetHolders(in.Ctx()))
	var W int64
	same := map[string]int64{}
	list := func(code int) *oracletypes.Holders {
		switch code {
		case 4, 5:
			// two lists that differ in one byte which is not valid UTF-8 (text encoders replace both by U+FFFD)
			return &oracletypes.Holders{List: []*oracletypes.Holder{{Address: string([]byte{0xfa + byte(code)}), Value: sdk.NewInt(5)}}}
		case 6:
			return &oracletypes.Holders{List: []*oracletypes.Holder{{Address: "0xaaaa", Value: sdk.NewInt(5)}, {Address: "0xbbbb", Value: sdk.NewInt(7)}}}
		case 8:
			return &oracletypes.Holders{}
		case 7:
			// one entry whose free-form address contains the separators of a textual list encoding
			return &oracletypes.Holders{List: []*oracletypes.Holder{{Address: `0xaaaa:5","0xbbbb`, Value: sdk.NewInt(7)}}}
		}
		return c18Holders([]int64{0, 2, 1}[code-1])
	}
	norm := func(s string) string {
		if s == "<nil>" {
			return "" // no stored list and the empty list are the same thing: nobody has a discount
		}
		return s
	}
	if cs.Prior != 0 {
		for _, v := range c.Vals {
			if r := in.DeliverMsg(&oracletypes.MsgHoldersClaim{Epoch: epoch, Holders: list(cs.Prior), Orchestrator: v.Acc.String()}); !r.OK() {
				return "claim-rejected", nil
			}
		}
		for {
			b := in.Height%5 == 0
			if p := in.NextBlock(5); p != nil {
				return "block-failure", nil
			}
			if b {
				break
			}
		}
		epoch = in.Oracle.GetCurrentEpoch(in.Ctx())
		before = holdersCanon(in.Oracle.GetHolders(in.Ctx()))
		if before != holdersCanon(list(cs.Prior)) {
			return "bad", &engine.Violation{Property: "C18", Rule: "attested_holder_list_not_in_force", Site: "storeHolders",
				Detail: fmt.Sprintf("powers %v: every validator reported {%s}, list in force afterwards {%s}", cs.Powers, holdersCanon(list(cs.Prior)), before)}
		}
	}
	for i, v := range c.Vals {
		W += cs.Powers[i]
		if cs.Holders[i] == 0 || cs.Powers[i] == 0 {
			continue
		}
		same[holdersCanon(list(cs.Holders[i]))] += cs.Powers[i]
		if r := in.DeliverMsg(&oracletypes.MsgHoldersClaim{Epoch: epoch, Holders: list(cs.Holders[i]), Orchestrator: v.Acc.String()}); !r.OK() {
			return "claim-rejected", nil
		}
	}
	for {
		b := in.Height%5 == 0
		if p := in.NextBlock(5); p != nil {
			return "block-failure", nil
		}
		if b {
			break
		}
	}
	after := holdersCanon(in.Oracle.GetHolders(in.Ctx()))
	if cs.Prior != 0 {
		// small exact stakes: a list more than two thirds reported identically is the one in force now
		for l, w := range same {
			if 3*w > 2*W && norm(after) != l {
				return "bad", &engine.Violation{Property: "C18", Rule: "attested_holder_list_not_in_force", Site: "storeHolders",
					Detail: fmt.Sprintf("powers %v, reports %v after {%s} was in force: {%s} reported identically by %d of %d stake, list in force afterwards {%s}", cs.Powers, cs.Holders, before, l, w, W, after)}
			}
		}
	}
	if after == before {
		return "holders-unchanged", nil
	}
	for l, w := range same {
		if l == norm(after) {
			if 3*w <= 2*W {
				return "bad", &engine.Violation{Property: "C18", Rule: "holders_adopted_without_two_thirds_identical", Site: "AttestationHandler.Handle",
					Detail: fmt.Sprintf("powers %v, reports %v: the list reported by %d of %d stake (not more than two thirds) was adopted", cs.Powers, cs.Holders, w, W)}
			}
			return "holders-adopted", nil
		}
	}
	return "bad", &engine.Violation{Property: "C18", Rule: "holders_adopted_without_two_thirds_identical", Site: "AttestationHandler.Handle",
		Detail: fmt.Sprintf("powers %v, reports %v: the holder list changed to one nobody reported: %s", cs.Powers, cs.Holders, after)}
}

func c18GridCases(tier string) []c18GridCase {
	as := []int64{3, 5, 7, 11, 13, 17, 23, 29, 37, 43, 53, 61, 71, 83, 97, 101, 113, 1666, 5001}
	if tier == "thorough" {
		as = nil
		for a := int64(2); a <= 130; a++ {
			as = append(as, a)
		}
		as = append(as, 1666, 5001, 7919)
	}
	var out []c18GridCase
	add := func(p []int64, low []bool) {
		for _, x := range p {
			if x <= 0 {
				return
			}
		}
		out = append(out, c18GridCase{Powers: p, Low: low})
		inv := make([]bool, len(low))
		for i := range low {
			inv[i] = !low[i]
		}
		out = append(out, c18GridCase{Powers: p, Low: inv})
	}
	for _, a := range as {
		for _, d := range []int64{-2, -1, 1, 2} {
			for _, b := range []int64{1, a / 3, a / 2} {
				// one against two: a vs b + c, c = a - b + d
				add([]int64{a, b, a - b + d}, []bool{true, false, false})
				// one against three: a vs b + c + e
				c := (a - b) / 2
				add([]int64{a, b, c, a - b - c + d}, []bool{true, false, false, false})
				// two against two: a + b vs c + e, e = a + b - c + d
				add([]int64{a, b, c + 1, a + b - c - 1 + d}, []bool{true, true, false, false})
			}
		}
	}
	// total stake 65535: the 16-bit normalisation is exact (weight = stake), so a majority of one unit must decide
	add([]int64{32768, 32767}, []bool{true, false})
	add([]int64{32768, 16384, 16383}, []bool{true, false, false})
	add([]int64{32767, 16384, 16384}, []bool{true, false, false})
	add([]int64{16384, 16384, 16384, 16383}, []bool{true, true, false, false})
	add([]int64{21846, 21845, 21844}, []bool{true, false, false})
	// very large stakes (a validator's power times 65535 no longer fits 64 bits): clear majorities only, so that the
	// 16-bit normalisation cannot matter
	for _, u := range []int64{100_000_000_000_000, 1_000_000_000_000_000} {
		add([]int64{3 * u, u, u}, []bool{true, false, false})
		add([]int64{u, 3 * u, u}, []bool{true, false, false})
		add([]int64{2 * u, 2 * u, 5 * u}, []bool{true, true, false})
		add([]int64{6 * u, 2 * u, u, u}, []bool{true, false, false, false})
	}
	return out
}

func c18RunGrid(in *hub.Instance, cs c18GridCase) (string, *engine.Violation) {
	c := NewC18(cs.Powers)
	in.InitGenesis(c.Genesis())
	epoch := in.Oracle.GetCurrentEpoch(in.Ctx())
	var lowW, highW, W int64
	for i, v := range c.Vals {
		set := int64(1)
		if cs.Low[i] {
			set = 0
			lowW += cs.Powers[i]
		} else {
			highW += cs.Powers[i]
		}
		W += cs.Powers[i]
		if r := in.DeliverMsg(&oracletypes.MsgPriceClaim{Epoch: epoch, Prices: c18Prices(set), Orchestrator: v.Acc.String()}); !r.OK() {
			return "claim-rejected", nil
		}
	}
	for {
		b := in.Height%5 == 0
		if p := in.NextBlock(5); p != nil {
			return "block-failure", nil
		}
		if b {
			break
		}
	}
	prices := in.Oracle.GetPrices(in.Ctx())
	for i, name := range c18Names {
		lo, hi := sdk.NewDec(100+int64(i)), sdk.NewDec(300+int64(i))
		var stored sdk.Dec
		found := false
		for _, p := range prices.GetList() {
			if p.Name == name {
				stored, found = p.Value, true
			}
		}
		if !found {
			return "no-update", nil
		}
		// weight strictly below / above the stored value may not exceed half of the stake
		below, above := int64(0), int64(0)
		if lo.LT(stored) {
			below += lowW
		}
		if lo.GT(stored) {
			above += lowW
		}
		if hi.LT(stored) {
			below += highW
		}
		if hi.GT(stored) {
			above += highW
		}
		if 2*below > W || 2*above > W {
			return "bad", &engine.Violation{Property: "C18", Rule: "stored_price_not_weighted_median", Site: "AttestationHandler.Handle",
				Detail: fmt.Sprintf("powers %v, validators reporting the low value %v: stored %s = %s although stake %d of %d reported %s and %d reported %s", cs.Powers, cs.Low, name, stored, lowW, W, lo, highW, hi)}
		}
	}
	if lowW > highW {
		return "low-side-heavier", nil
	}
	return "high-side-heavier", nil
}

func init() {
	base := MultiRunner(func(tier string) ([]MultiCase, []string) {
		var cases []MultiCase
		depth, dl := 4, 40*time.Second
		vecs := [][]int64{{10, 10, 10}, {1, 1, 1}, {50, 25, 25}, {1, 1}, {66, 34}, {65, 35}, {10, 10, 10, 0}}
		if tier == "thorough" {
			depth, dl = 6, 2*time.Minute
			vecs = append(vecs, []int64{34, 33, 33}, []int64{50, 30, 20}, []int64{2, 1, 1, 1}, []int64{10})
		}
		for _, pv := range vecs {
			d := depth
			if len(pv) > 3 {
				d-- // larger alphabet
			}
			spec := NewC18(pv)
			if tier == "thorough" {
				spec.Lists = 4
			}
			cases = append(cases, MultiCase{Name: fmt.Sprint("powers=", pv), Spec: spec, Cfg: engine.Config{MaxDepth: d, Deadline: dl, ReplayLeaf: 10}})
		}
		return cases, []string{
			"claims: price sets P0/P1/P3 (all required names), P2 (one required name missing), P4 (every name twice) and P5 (P1 plus the names ETH and Eth - case variants of a required name - at another value), current / previous / next epoch, repeated claims, holder lists L0, L1 (same content, other order), L2 (thorough tier and the holder grid: also the empty list); claimers: each validator's own account, an unbonded validator (last vector), a stranger",
			"only-if direction as the property is worded: liveness (a quorum MUST update) is not demanded for prices; for holder lists the other direction is checked too (a list more than two thirds of the stake reported identically is the one in force afterwards - a list left behind keeps discounts nobody attests any more), also from a state in which an earlier list is in force",
			"weighted median = weight strictly below <= W/2 and weight strictly above <= W/2, exact stakes, tolerance n*W/65535 for the module's 16-bit power normalisation",
		}
	})
	Register("C18", func(tier string) *Runner {
		b := base(tier)
		return &Runner{Replay: b.Replay, Run: func(o RunOpts) Output {
			out := b.Run(o)
			if len(out.Violations) > 0 || out.InternalError != "" {
				return out
			}
			cases := append(c18GridCases(o.Tier), c18HolderGridCases()...)
			res := make([]string, len(cases))
			viol := make([]*engine.Violation, len(cases))
			ch := make(chan int, len(cases))
			for i := range cases {
				ch <- i
			}
			close(ch)
			var wg sync.WaitGroup
			for w := 0; w < runtime.NumCPU(); w++ {
				wg.Add(1)
				go func() {
					defer wg.Done()
					in := hub.New()
					for i := range ch {
						if cases[i].Holders != nil {
							res[i], viol[i] = c18RunHolderGrid(in, cases[i])
						} else {
							res[i], viol[i] = c18RunGrid(in, cases[i])
						}
					}
				}()
			}
			wg.Wait()
			outcomes := map[string]int{}
			for i := range cases {
				outcomes[res[i]]++
				if viol[i] != nil && len(out.Violations) == 0 {
					out.Violations = append(out.Violations, engine.Found{Violation: *viol[i], Reproduced: 5})
				}
			}
			cov := out.Evidence["coverage"].(map[string]interface{})
			cov["near_tie_grid_cases"] = len(cases)
			cov["near_tie_grid_outcomes"] = outcomes
			cov["near_tie_grid_rule"] = "power vectors (one against two, one against three, two against two) whose two sides differ by 1 or 2 units of stake, both assignments of the low/high price set; every case is one fresh real instance: claims by every validator, epoch boundary, stored prices compared with the heavier side; plus holder lists reported by a stake share at, just below and just above two thirds, with and without validators whose normalised power rounds to nothing: a list is adopted only with more than two thirds of exact stake"
			out.Summary += fmt.Sprintf(" near_tie_grid=%d %v", len(cases), outcomes)
			return out
		}}
	})
}