package apph

import (
	"testing"

	sdk "github.com/cosmos/cosmos-sdk/types"
	stakingtypes "github.com/cosmos/cosmos-sdk/x/staking/types"
)

func TestSmoke(t *testing.T) {
	c := New(3)
	defer c.Close()
	all := []bool{true, true, true}
	for i := 0; i < 3; i++ {
		if f := c.Block(all, nil); f != nil {
			t.Fatal(f)
		}
	}
	m := &Msg{M: stakingtypes.NewMsgUndelegate(c.Vals[1].Oper, sdk.ValAddress(c.Vals[1].Oper), sdk.NewCoin(sdk.DefaultBondDenom, BondAmt))}
	if f := c.Block(all, []*Msg{m}); f != nil {
		t.Fatal(f.Stage, f.Value)
	}
	t.Log("undelegate:", m.Err)
	for i := 0; i < 8; i++ {
		if f := c.Block([]bool{true, true, false}, nil); f != nil {
			t.Fatal(f.Stage, f.Value)
		}
	}
}
