package scen

import (
	"fmt"
	"math/big"
	"strings"
	"time"

	sdk "github.com/cosmos/cosmos-sdk/types"

	"verifmc/engine"
	"verifmc/hub"

	mhubtypes "github.com/MinterTeam/mhub2/module/x/mhub2/types"
	oracletypes "github.com/MinterTeam/mhub2/module/x/oracle/types"
)

// C05: block processing never panics or deadlocks.
//
// Unlike the other scenarios every transition here is one WHOLE block on the
// layering a node uses: block-scoped CacheMultiStore, BeginBlocker, txs on
// per-tx cache layers, EndBlockers, write. States are block boundaries. The
// alphabet is a list of block "items" (bulk sends sized at the thresholds the
// store code has, hostile-but-admissible claims voted by every validator, ...);
// a block holds one or two items and starts 5 s or timeout+1 s after the last.

type c05State struct {
	Snap *hub.Snapshot
	Ev   map[string]uint64 // next event nonce per chain
	NSend int
	key  string
}

func (s *c05State) Key() string {
	if s.key == "" {
		s.key = s.Snap.Digest() + fmt.Sprint(s.Ev)
	}
	return s.key
}

type C05 struct {
	Vals    []hub.Validator
	Powers  []int64
	User    sdk.AccAddress
	Items   []string
	Pairs   [][2]string
	Lists   [][]string // longer blocks
	Timeout int64
	Tokens  []TokenRow
	// Extra: a bonded validator whose share is below the oracle's 16-bit power resolution (normalised
	// power 0) and a registered but unbonded validator; both may send oracle claims
	Extra []hub.Validator
}

type c05Worker struct{ in *hub.Instance }

func NewC05(tier string) *C05 {
	c := &C05{Powers: []int64{30000, 30000, 30000}, User: hub.User("u1"), Timeout: 3600}
	for i := range c.Powers {
		c.Vals = append(c.Vals, hub.NewValidator(string(rune('A'+i))))
	}
	c.Extra = []hub.Validator{hub.NewValidator("tiny"), hub.NewValidator("unbonded")}
	c.Tokens = []TokenRow{
		{"hub", "ethereum", EthHub, 18, 100},
		{"hub", "bsc", BscHub, 18, 100},
		{"hub", "minter", "1", 18, 100},
		{"usdt", "ethereum", EthEth, 6, 100},
		{"usdt", "minter", "12", 24, 100},
		// a token nobody holds at genesis: deposits of 2^255 units of it fit the supply (one after the other: a withdrawal
		// burns what it takes)
		{"big", "ethereum", c05BigToken, 18, 100},
		{"big", "minter", "77", 18, 100},
	}
	c.Items = []string{"empty", "send1", "send2", "send65", "send70", "sendM70", "reqbatch", "cancel1",
		"dep_ok", "dep_disputed", "dep_negfee", "dep_huge", "dep_huge_dec6", "dep_huge_dec24", "dep_zero", "dep_unknown_token", "dep_unknown_chain", "dep_to_hub_short_recv", "dep_negfee_hub",
		"exec_first", "exec_first_hugefee", "exec_unknown", "valset_event", "logic_event", "prices", "prices_partial", "holders", "observe_far", "prices_extra_name_by_powerless", "holders_by_powerless",
		"delegate_dup_ext", "delegate_dup_orch", "delegate_fresh",
		"dep_big", "send_bigfee", "send_big1", "dep_minter_ok", "param_eth_fast", "param_hub_slow", "observe_top", "observe_neartop",
		"holders_one_nil", "holders_nil_last_empty_majority", "prices_dup_name", "prices_huge_extra", "prices_nil_value_extra", "prices_negative_extra", "prop_cold_hub", "prop_tokeninfos_empty"}
	c.Pairs = [][2]string{{"send2", "send70"}, {"send1", "send65"}, {"dep_ok", "send70"}, {"observe_far", "send2"}, {"prices", "exec_first"}, {"reqbatch", "send70"}, {"send70", "reqbatch"}}
	// a key registration that is rejected (address / orchestrator already in use) or accepted in the middle of a block that
	// has written many entries, followed by one more write: whatever the registration scanned must not stay open
	c.Lists = [][]string{{"send70", "delegate_dup_ext", "send1"}, {"send70", "delegate_dup_orch", "send1"}, {"send70", "delegate_fresh", "send1"},
		{"sendM70", "delegate_dup_ext", "sendM1"}}
	if tier == "thorough" {
		c.Items = append(c.Items, "send66", "send101", "send1100", "cancel2")
		c.Pairs = append(c.Pairs, [2]string{"send2", "send1100"}, [2]string{"send101", "reqbatch"}, [2]string{"send2", "send66"})
	}
	return c
}

func (c *C05) ID() string { return "C05" }

func (c *C05) genesis() hub.Genesis {
	bal := sdk.NewCoins(sdk.NewCoin("hub", sdk.NewIntFromBigInt(new(big.Int).Exp(big.NewInt(10), big.NewInt(30), nil))), sdk.NewCoin("usdt", sdk.NewIntFromBigInt(new(big.Int).Exp(big.NewInt(10), big.NewInt(30), nil))))
	g := StdGenesis(append(append([]hub.Validator{}, c.Vals...), c.Extra...), append(append([]int64{}, c.Powers...), 1, 0), []sdk.AccAddress{c.User}, bal)
	var infos []*mhubtypes.TokenInfo
	for i, t := range c.Tokens {
		infos = append(infos, &mhubtypes.TokenInfo{Id: uint64(i + 1), Denom: t.Denom, ChainId: t.Chain, ExternalTokenId: t.ExtID,
			ExternalDecimals: t.Dec, Commission: sdk.NewDec(t.CommissionBP).QuoInt64(10000)})
	}
	g.Hub.TokenInfos = &mhubtypes.TokenInfos{TokenInfos: infos}
	p := *g.Hub.Params
	p.OutgoingTxTimeout = uint64(c.Timeout) * 1000
	g.Hub.Params = &p
	return g
}

func (c *C05) NewWorker() engine.Worker {
	in := hub.New()
	in.GenesisClosed = true
	return &c05Worker{in: in}
}

func blk(dt int64, items ...string) engine.Op { return engine.Op{Kind: "Block", S: items, I: []int64{dt}} }

// seed paths: genesis; two old high-fee transfers waiting in the pool at an odd height;
// a batch of 70 whose timeout has just been observed (it returns to the pool in the next BeginBlocker)
func (c *C05) seedPaths() [][]engine.Op {
	return [][]engine.Op{
		{},
		{blk(5, "empty"), blk(5, "send2")},
		{blk(5, "dep_ok"), blk(5, "send70", "reqbatch"), blk(5, "observe_far")},
		{blk(5, "prices"), blk(5, "empty"), blk(5, "empty"), blk(5, "empty"), blk(5, "send2", "reqbatch")},
		// a chain connected by governance after genesis: keys registered, its first signer-set event observed, a withdrawal
		{blk(5, "gov_add_chain", "keys_polygon"), blk(5, "polygon_event"), blk(5, "send_polygon")},
		{blk(5, "empty"), blk(5, "gov_add_chain", "keys_polygon"), blk(5, "polygon_event"), blk(5, "send_polygon")},
		// external heights at the top of the uint64 range have been observed (batches are built at even heights; the
		// projection grows with every hub block since the observation)
		{blk(5, "observe_top")},
		{blk(5, "observe_neartop"), blk(5, "empty"), blk(5, "empty"), blk(5, "empty"), blk(5, "empty"), blk(5, "empty"), blk(5, "empty"), blk(5, "empty"), blk(5, "empty"), blk(5, "empty"), blk(5, "empty"), blk(5, "empty"), blk(5, "empty")},
		// block-time parameters changed by governance after events of ethereum and Minter have been observed
		{blk(5, "dep_ok", "dep_minter_ok"), blk(5, "param_eth_fast")},
		{blk(5, "dep_ok", "dep_minter_ok"), blk(5, "param_hub_slow")},
		// fees at the 2^256 scale: two transfers with a fee of 2^255 each (funded by two successive deposits) in one pending batch
		{blk(5, "dep_big"), blk(5, "send_bigfee", "dep_big"), blk(5, "send_bigfee"), blk(5, "empty")},
		// ... and both still in the pool (odd height) while an older batch of the token is pending
		{blk(5, "dep_big"), blk(5, "send_big1", "reqbatch", "dep_big"), blk(5, "send_bigfee", "dep_big"), blk(5, "send_bigfee")},
		// (the same at the other block parity: automatic batching runs at even heights)
		{blk(5, "empty"), blk(5, "dep_big"), blk(5, "send_bigfee", "dep_big"), blk(5, "send_bigfee"), blk(5, "empty")},
		{blk(5, "empty"), blk(5, "dep_big"), blk(5, "send_big1", "reqbatch", "dep_big"), blk(5, "send_bigfee", "dep_big"), blk(5, "send_bigfee")},
	}
}

func (c *C05) Seeds(w engine.Worker) []engine.State {
	var out []engine.State
	for i := range c.seedPaths() {
		s, steps := c.Replay(w, i, nil)
		for _, st := range steps {
			if len(st.Violations) > 0 {
				// a seed path that already violates: report it through the search (state = boundary before)
				continue
			}
		}
		if s != nil {
			out = append(out, s)
		}
	}
	return out
}

func (c *C05) Ops(s engine.State) []engine.Op {
	var ops []engine.Op
	for _, dt := range []int64{5, c.Timeout + 1} {
		for _, it := range c.Items {
			ops = append(ops, engine.Op{Kind: "Block", S: []string{it}, I: []int64{dt}})
		}
	}
	for _, dt := range []int64{5, c.Timeout + 1} {
		for _, p := range c.Pairs {
			ops = append(ops, engine.Op{Kind: "Block", S: []string{p[0], p[1]}, I: []int64{dt}})
		}
	}
	for _, dt := range []int64{5, c.Timeout + 1} {
		for _, l := range c.Lists {
			ops = append(ops, engine.Op{Kind: "Block", S: append([]string{}, l...), I: []int64{dt}})
		}
	}
	return ops
}

func (c *C05) Apply(w engine.Worker, s engine.State, op engine.Op) engine.Step {
	in := w.(*c05Worker).in
	cs := s.(*c05State)
	in.RestoreClosed(cs.Snap)
	ns := &c05State{Ev: cloneU(cs.Ev), NSend: cs.NSend}
	var st engine.Step
	c.block(in, ns, op, &st)
	if len(st.Violations) == 0 {
		ns.Snap = in.Snapshot()
		st.Next = ns
	}
	return st
}

func (c *C05) Replay(w engine.Worker, seed int, ops []engine.Op) (engine.State, []engine.Step) {
	in := w.(*c05Worker).in
	in.InitGenesis(c.genesis())
	ns := &c05State{Ev: map[string]uint64{}}
	var steps []engine.Step
	for _, op := range c.seedPaths()[seed] {
		var st engine.Step
		c.block(in, ns, op, &st)
		if len(st.Violations) > 0 {
			return nil, []engine.Step{st}
		}
	}
	for _, op := range ops {
		var st engine.Step
		c.block(in, ns, op, &st)
		steps = append(steps, st)
		if len(st.Violations) > 0 {
			return nil, steps
		}
	}
	ns.Snap = in.Snapshot()
	return ns, steps
}

func panicSite(p *hub.Panic) string {
	// first frame of the mhub2/oracle module in the stack identifies the site
	lines := strings.Split(p.Stack, "\n")
	var frames []string
	for i, l := range lines {
		if strings.Contains(l, "github.com/MinterTeam/mhub2/module/x/") && !strings.HasPrefix(l, "\t") {
			fn := l
			if j := strings.LastIndex(fn, "("); j > 0 {
				fn = fn[:j]
			}
			fn = strings.TrimPrefix(fn, "github.com/MinterTeam/mhub2/module/x/")
			_ = i
			frames = append(frames, fn)
		}
	}
	if len(frames) == 0 {
		return "unknown"
	}
	// innermost module frame + the handler-level frame (coarse but stable)
	inner := frames[0]
	return inner
}

func panicClass(v interface{}) string {
	s := fmt.Sprint(v)
	switch {
	case strings.Contains(s, "negative coin amount"):
		return "negative coin amount"
	case strings.Contains(s, "out of bound"), strings.Contains(s, "overflow"):
		return "integer overflow"
	case strings.Contains(s, "nil pointer"), strings.Contains(s, "invalid memory address"):
		return "nil dereference"
	case strings.Contains(s, "not found"), strings.Contains(s, "key not found"):
		return "key not found"
	case strings.Contains(s, "division by zero"), strings.Contains(s, "divide by zero"):
		return "division by zero"
	case strings.Contains(s, "interface conversion"):
		return "interface conversion"
	case strings.Contains(s, "index out of range"), strings.Contains(s, "slice bounds"):
		return "index out of range"
	}
	if len(s) > 60 {
		s = s[:60]
	}
	return s
}

func (c *C05) block(in *hub.Instance, ns *c05State, op engine.Op, st *engine.Step) {
	dt := op.I[0]
	if p := in.BeginBlock(dt); p != nil {
		st.Violate("C05", "panic_in_"+p.Phase, panicSite(p)+": "+panicClass(p.Value), "block %v: %v", op, p.Value)
		return
	}
	// "a malformed or malicious deposit or claim can at worst fail on its own": a block that carries nothing but
	// deposit claims leaves no coins parked on the module's transit accounts (a deposit either takes effect as a
	// whole - recipient credited or onward transfer scheduled - or not at all)
	depositsOnly := len(op.S) > 0
	for _, it := range op.S {
		if !strings.HasPrefix(it, "dep_") && it != "empty" {
			depositsOnly = false
		}
	}
	transit := func() string {
		return in.Bank.GetAllBalances(in.Ctx(), mhubtypes.TempAddress).String() + "|" + in.Bank.GetAllBalances(in.Ctx(), hub.ModuleAddr).String()
	}
	before := transit()
	// non-vacuity: how often the oracle's EndBlocker really adopts prices / holders (the hostile oracle items only bite then)
	oracleBefore := fmt.Sprint(in.Oracle.GetPrices(in.Ctx()), "|", in.Oracle.GetHolders(in.Ctx()))
	defer func() {
		if len(st.Violations) == 0 && fmt.Sprint(in.Oracle.GetPrices(in.Ctx()), "|", in.Oracle.GetHolders(in.Ctx())) != oracleBefore {
			st.Count("oracle_updates", 1)
		}
	}()
	for _, it := range op.S {
		c.item(in, ns, it, st)
	}
	if p := in.EndBlock(); p != nil {
		st.Violate("C05", "panic_in_"+p.Phase, panicSite(p)+": "+panicClass(p.Value), "block %v: %v", op, p.Value)
		return
	}
	if depositsOnly {
		if after := transit(); after != before {
			st.Violate("C05", "failed_deposit_left_partial_effects", "processExternalEvent", "block %v: transit account balances (temporary address | module account) went from %s to %s", op, before, after)
		}
		st.Count("deposit_only_blocks_checked", 1)
	}
	st.Count("blocks", 1)
	st.Obs = fmt.Sprint(op.S)
}

func (c *C05) sends(in *hub.Instance, ns *c05State, n int, chain string, fee int64, st *engine.Step) {
	for i := 0; i < n; i++ {
		ns.NSend++
		r := in.DeliverMsg(mhubtypes.NewMsgSendToExternal(mhubtypes.ChainID(chain), c.User, hub.HexAddr("rcpt"), sdk.NewInt64Coin("hub", 1000), sdk.NewInt64Coin("hub", fee)))
		c.txOutcome(r, st)
	}
}

func (c *C05) txOutcome(r hub.TxResult, st *engine.Step) {
	switch {
	case r.Panic != nil:
		st.Count("tx_panics_confined", 1)
	case r.Err != nil:
		st.Count("tx_failed", 1)
	default:
		st.Count("tx_ok", 1)
	}
}

func (c *C05) vote(in *hub.Instance, ns *c05State, chain string, mk func(nonce uint64) mhubtypes.ExternalEvent, st *engine.Step) {
	ns.Ev[chain]++
	ev := mk(ns.Ev[chain])
	okAny := false
	for _, v := range c.Vals {
		r := in.DeliverMsg(hub.EventMsg(v.Orch, chain, ev))
		c.txOutcome(r, st)
		if r.OK() {
			okAny = true
		}
	}
	if !okAny {
		ns.Ev[chain]-- // rejected by stateless validation: the nonce was not consumed
		st.Count("claims_rejected_statelessly", 1)
	} else {
		st.Count("claims_voted", 1)
	}
}

// hubGuard runs f and returns the value it panicked with, if any.
func hubGuard(f func()) (p interface{}) {
	defer func() { p = recover() }()
	f()
	return nil
}

func maxU256() sdk.Int {
	return sdk.NewIntFromBigInt(new(big.Int).Sub(new(big.Int).Lsh(big.NewInt(1), 256), big.NewInt(1)))
}

var c05BigToken = hub.HexAddr("c05-big-token")

func two(n uint) sdk.Int { return sdk.NewIntFromBigInt(new(big.Int).Lsh(big.NewInt(1), n)) }

func (c *C05) item(in *hub.Instance, ns *c05State, it string, st *engine.Step) {
	sender := hub.HexAddr("extsender")
	switch it {
	case "empty":
	case "send1":
		c.sends(in, ns, 1, "ethereum", 50, st)
	case "send2":
		c.sends(in, ns, 2, "ethereum", 50, st)
	case "send65":
		c.sends(in, ns, 65, "ethereum", 1, st)
	case "send66":
		c.sends(in, ns, 66, "ethereum", 1, st)
	case "send70":
		c.sends(in, ns, 70, "ethereum", 1, st)
	case "send101":
		c.sends(in, ns, 101, "ethereum", 1, st)
	case "send1100":
		c.sends(in, ns, 1100, "ethereum", 1, st)
	case "sendM70":
		c.sends(in, ns, 70, "minter", 1, st)
	case "sendM1":
		c.sends(in, ns, 1, "minter", 50, st)
	case "delegate_dup_ext", "delegate_dup_orch", "delegate_fresh":
		// validator B registers keys on ethereum: A's external address (in use), A's orchestrator (in use), or fresh ones
		b, a := c.Vals[1], c.Vals[0]
		seq, _ := in.Acc.GetSequence(in.Ctx(), b.Acc)
		key, orch := hub.EthKey("c05fresh"), hub.User("c05freshorch")
		switch it {
		case "delegate_dup_ext":
			key = a.EthKey
		case "delegate_dup_orch":
			orch = a.Orch
		}
		c.txOutcome(in.DeliverMsg(hub.DelegateKeysMsg(in.Cdc, b, "ethereum", orch, key, seq)), st)
	case "reqbatch":
		c.txOutcome(in.DeliverMsg(&mhubtypes.MsgRequestBatchTx{ChainId: "ethereum", Denom: "hub", Signer: c.User.String()}), st)
	case "cancel1", "cancel2":
		id := uint64(1)
		if it == "cancel2" {
			id = 2
		}
		c.txOutcome(in.DeliverMsg(mhubtypes.NewMsgCancelSendToExternal(id, "ethereum", c.User)), st)
	case "dep_ok":
		c.vote(in, ns, "ethereum", func(n uint64) mhubtypes.ExternalEvent {
			return &mhubtypes.TransferToChainEvent{EventNonce: n, ExternalCoinId: EthHub, Amount: sdk.NewInt(100000), Fee: sdk.NewInt(10), Sender: sender,
				ReceiverChainId: "minter", ExternalReceiver: hub.HexAddr("x"), ExternalHeight: 1000 + n, TxHash: fmt.Sprintf("0xd%d", n)}
		}, st)
	case "dep_minter_ok":
		c.vote(in, ns, "minter", func(n uint64) mhubtypes.ExternalEvent {
			return &mhubtypes.SendToHubEvent{EventNonce: n, ExternalCoinId: "1", Amount: sdk.NewInt(100000), Sender: sender, CosmosReceiver: c.User.String(), ExternalHeight: 1000 + n, TxHash: fmt.Sprintf("Mtd%d", n)}
		}, st)
	case "param_eth_fast", "param_hub_slow":
		// governance brings a block-time parameter up to date: an external chain that is faster than the hub
		// (ethereum 3 s against the hub's 5 s; the hub at 6 s against Minter's fixed 5 s)
		key, val := "AverageEthereumBlockTime", `"3000"`
		if it == "param_hub_slow" {
			key, val = "AverageBlockTime", `"6000"`
		}
		if err := in.ParamChange(mhubtypes.DefaultParamspace, key, val); err == nil {
			st.Count("parameter_changes", 1)
		}
	case "dep_disputed":
		// the validators disagree about the next event: three different claims at one nonce, none reaches 66 %
		// (a later unanimous claim then reaches quorum at the following nonce while this one is undecided)
		ns.Ev["ethereum"]++
		n := ns.Ev["ethereum"]
		for i, v := range c.Vals {
			ev := &mhubtypes.TransferToChainEvent{EventNonce: n, ExternalCoinId: EthHub, Amount: sdk.NewInt(int64(1000 + i)), Fee: sdk.NewInt(10), Sender: sender,
				ReceiverChainId: "minter", ExternalReceiver: hub.HexAddr("x"), ExternalHeight: 1000 + n, TxHash: fmt.Sprintf("0xq%d", n)}
			c.txOutcome(in.DeliverMsg(hub.EventMsg(v.Orch, "ethereum", ev)), st)
		}
		st.Count("claims_voted", 1)
	case "dep_negfee":
		// what every honest connector emits for a Minter deposit whose payload says fee "-5"
		// (command.ValidateAndComplete accepts it): cosmos.CreateClaims copies cmd.Fee into Fee
		c.vote(in, ns, "minter", func(n uint64) mhubtypes.ExternalEvent {
			return &mhubtypes.TransferToChainEvent{EventNonce: n, ExternalCoinId: "1", Amount: sdk.NewInt(100000), Fee: sdk.NewInt(-5), Sender: sender,
				ReceiverChainId: "ethereum", ExternalReceiver: hub.HexAddr("x"), ExternalHeight: 1000 + n, TxHash: fmt.Sprintf("0xn%d", n)}
		}, st)
	case "dep_negfee_hub":
		c.vote(in, ns, "ethereum", func(n uint64) mhubtypes.ExternalEvent {
			return &mhubtypes.TransferToChainEvent{EventNonce: n, ExternalCoinId: EthHub, Amount: sdk.NewInt(100), Fee: sdk.NewInt(-500), Sender: sender,
				ReceiverChainId: "hub", ExternalReceiver: "0x" + fmt.Sprintf("%x", c.User.Bytes()), ExternalHeight: 1000 + n, TxHash: fmt.Sprintf("0xnh%d", n)}
		}, st)
	case "dep_huge":
		c.vote(in, ns, "ethereum", func(n uint64) mhubtypes.ExternalEvent {
			return &mhubtypes.SendToHubEvent{EventNonce: n, ExternalCoinId: EthHub, Amount: maxU256(), Sender: sender, CosmosReceiver: c.User.String(), ExternalHeight: 1000 + n, TxHash: fmt.Sprintf("0xh%d", n)}
		}, st)
	case "dep_big":
		// 2^255 + 2^252 units of the token without genesis supply
		c.vote(in, ns, "ethereum", func(n uint64) mhubtypes.ExternalEvent {
			return &mhubtypes.SendToHubEvent{EventNonce: n, ExternalCoinId: c05BigToken, Amount: two(255).Add(two(252)), Sender: sender, CosmosReceiver: c.User.String(), ExternalHeight: 1000 + n, TxHash: fmt.Sprintf("0xbig%d", n)}
		}, st)
	case "send_bigfee":
		// a withdrawal of 2^250 units that offers a bridge fee of 2^255 units (admissible: the sender holds them)
		r := in.DeliverMsg(mhubtypes.NewMsgSendToExternal("ethereum", c.User, hub.HexAddr("rcpt"), sdk.NewCoin("big", two(250)), sdk.NewCoin("big", two(255))))
		if r.OK() {
			st.Count("huge_fee_sends_ok", 1)
		}
	case "send_big1":
		if in.DeliverMsg(mhubtypes.NewMsgSendToExternal("ethereum", c.User, hub.HexAddr("rcpt"), sdk.NewCoin("big", sdk.NewInt(1000)), sdk.NewCoin("big", sdk.NewInt(5)))).OK() {
			st.Count("sends_ok", 1)
		}
	case "dep_huge_dec6":
		c.vote(in, ns, "ethereum", func(n uint64) mhubtypes.ExternalEvent {
			return &mhubtypes.SendToHubEvent{EventNonce: n, ExternalCoinId: EthEth, Amount: two(255), Sender: sender, CosmosReceiver: c.User.String(), ExternalHeight: 1000 + n, TxHash: fmt.Sprintf("0xh6%d", n)}
		}, st)
	case "dep_huge_dec24":
		c.vote(in, ns, "minter", func(n uint64) mhubtypes.ExternalEvent {
			return &mhubtypes.TransferToChainEvent{EventNonce: n, ExternalCoinId: "12", Amount: two(255), Fee: two(255), Sender: sender,
				ReceiverChainId: "ethereum", ExternalReceiver: hub.HexAddr("x"), ExternalHeight: 1000 + n, TxHash: fmt.Sprintf("0xh24%d", n)}
		}, st)
	case "dep_zero":
		c.vote(in, ns, "ethereum", func(n uint64) mhubtypes.ExternalEvent {
			return &mhubtypes.TransferToChainEvent{EventNonce: n, ExternalCoinId: EthHub, Amount: sdk.ZeroInt(), Fee: sdk.ZeroInt(), Sender: sender,
				ReceiverChainId: "bsc", ExternalReceiver: hub.HexAddr("x"), ExternalHeight: 1000 + n, TxHash: fmt.Sprintf("0xz%d", n)}
		}, st)
	case "dep_unknown_token":
		c.vote(in, ns, "ethereum", func(n uint64) mhubtypes.ExternalEvent {
			return &mhubtypes.SendToHubEvent{EventNonce: n, ExternalCoinId: hub.HexAddr("nosuchtoken"), Amount: sdk.NewInt(5), Sender: sender, CosmosReceiver: c.User.String(), ExternalHeight: 1000 + n, TxHash: fmt.Sprintf("0xu%d", n)}
		}, st)
	case "dep_unknown_chain":
		c.vote(in, ns, "ethereum", func(n uint64) mhubtypes.ExternalEvent {
			return &mhubtypes.TransferToChainEvent{EventNonce: n, ExternalCoinId: EthHub, Amount: sdk.NewInt(100), Fee: sdk.NewInt(1), Sender: sender,
				ReceiverChainId: "solana", ExternalReceiver: hub.HexAddr("x"), ExternalHeight: 1000 + n, TxHash: fmt.Sprintf("0xc%d", n)}
		}, st)
	case "dep_to_hub_short_recv":
		// a 40-digit hex receiver without 0x prefix is a valid "hex address" for stateless validation
		c.vote(in, ns, "ethereum", func(n uint64) mhubtypes.ExternalEvent {
			return &mhubtypes.TransferToChainEvent{EventNonce: n, ExternalCoinId: EthHub, Amount: sdk.NewInt(100), Fee: sdk.NewInt(1), Sender: sender,
				ReceiverChainId: "hub", ExternalReceiver: fmt.Sprintf("%x", c.User.Bytes()), ExternalHeight: 1000 + n, TxHash: fmt.Sprintf("0xs%d", n)}
		}, st)
	case "exec_first", "exec_first_hugefee":
		// the relayer executed the oldest pending ethereum batch (if any), validators report it
		var bt *mhubtypes.BatchTx
		in.Hub.IterateOutgoingTxsByType(in.Ctx(), "ethereum", mhubtypes.BatchTxPrefixByte, func(_ []byte, o mhubtypes.OutgoingTx) bool {
			bt = o.(*mhubtypes.BatchTx)
			return false
		})
		if bt == nil {
			return
		}
		fee := sdk.NewInt(21000)
		if it == "exec_first_hugefee" {
			fee = two(255)
		}
		tok, nonce := bt.ExternalTokenId, bt.BatchNonce
		c.vote(in, ns, "ethereum", func(n uint64) mhubtypes.ExternalEvent {
			return &mhubtypes.BatchExecutedEvent{ExternalCoinId: tok, EventNonce: n, ExternalHeight: 1000 + n, BatchNonce: nonce, TxHash: fmt.Sprintf("0xe%d", n), FeePaid: fee, FeePayer: hub.HexAddr("relayer")}
		}, st)
	case "exec_unknown":
		c.vote(in, ns, "bsc", func(n uint64) mhubtypes.ExternalEvent {
			return &mhubtypes.BatchExecutedEvent{ExternalCoinId: BscHub, EventNonce: n, ExternalHeight: 1000 + n, BatchNonce: 77, TxHash: fmt.Sprintf("0xeu%d", n), FeePaid: sdk.NewInt(1), FeePayer: hub.HexAddr("relayer")}
		}, st)
	case "gov_add_chain":
		// governance connects another chain: the Chains parameter and a token row for it (nothing else knows the chain:
		// the module has block times for ethereum, bsc, minter and the hub only)
		if err := in.ParamChange(mhubtypes.DefaultParamspace, "Chains", `["ethereum","minter","bsc","hub","polygon"]`); err == nil {
			st.Count("parameter_changes", 1)
		}
		ti := in.Hub.GetTokenInfos(in.Ctx())
		ti.TokenInfos = append(ti.TokenInfos, &mhubtypes.TokenInfo{Id: 99, Denom: "hub", ChainId: "polygon", ExternalTokenId: hub.HexAddr("hub-on-polygon"), ExternalDecimals: 18, Commission: sdk.NewDec(1).QuoInt64(100)})
		_ = in.Proposal(&mhubtypes.TokenInfosChangeProposal{NewInfos: ti})
	case "keys_polygon":
		for _, v := range c.Vals {
			seq, _ := in.Acc.GetSequence(in.Ctx(), v.Acc)
			c.txOutcome(in.DeliverMsg(hub.DelegateKeysMsg(in.Cdc, v, "polygon", v.Orch, v.EthKey, seq)), st)
		}
	case "polygon_event":
		// the validators report that a signer set was installed in the new chain's contract
		c.vote(in, ns, "polygon", func(n uint64) mhubtypes.ExternalEvent {
			return &mhubtypes.SignerSetTxExecutedEvent{EventNonce: n, SignerSetTxNonce: 0, ExternalHeight: 1000 + n, Members: []*mhubtypes.ExternalSigner{{Power: 1 << 31, ExternalAddress: c.Vals[0].Eth.Hex()}}, TxHash: fmt.Sprintf("0xpv%d", n)}
		}, st)
	case "send_polygon":
		if in.DeliverMsg(mhubtypes.NewMsgSendToExternal("polygon", c.User, hub.HexAddr("rcpt"), sdk.NewCoin("hub", sdk.NewInt(100000)), sdk.NewCoin("hub", sdk.NewInt(50)))).OK() {
			st.Count("sends_ok", 1)
		}
	case "valset_event":
		c.vote(in, ns, "ethereum", func(n uint64) mhubtypes.ExternalEvent {
			return &mhubtypes.SignerSetTxExecutedEvent{EventNonce: n, SignerSetTxNonce: 1, ExternalHeight: 1000 + n, Members: []*mhubtypes.ExternalSigner{{Power: 1 << 31, ExternalAddress: c.Vals[0].Eth.Hex()}}, TxHash: fmt.Sprintf("0xv%d", n)}
		}, st)
	case "logic_event":
		c.vote(in, ns, "ethereum", func(n uint64) mhubtypes.ExternalEvent {
			return &mhubtypes.ContractCallExecutedEvent{EventNonce: n, InvalidationScope: []byte("scope"), InvalidationNonce: 1, ExternalHeight: 1000 + n, TxHash: fmt.Sprintf("0xl%d", n)}
		}, st)
	case "observe_top", "observe_neartop":
		// an ordinary deposit whose reported external height is the top of the uint64 range (nothing bounds the field):
		// height + projection + timeout wraps around
		h := ^uint64(0)
		if it == "observe_neartop" {
			h -= 6
		}
		c.vote(in, ns, "ethereum", func(n uint64) mhubtypes.ExternalEvent {
			return &mhubtypes.SendToHubEvent{EventNonce: n, ExternalCoinId: EthHub, Amount: sdk.NewInt(100000), Sender: sender, CosmosReceiver: c.User.String(), ExternalHeight: h, TxHash: fmt.Sprintf("0xtop%d", n)}
		}, st)
	case "observe_far":
		// an ordinary deposit observed at an external height far beyond every batch timeout
		c.vote(in, ns, "ethereum", func(n uint64) mhubtypes.ExternalEvent {
			return &mhubtypes.TransferToChainEvent{EventNonce: n, ExternalCoinId: EthHub, Amount: sdk.NewInt(100000), Fee: sdk.NewInt(10), Sender: sender,
				ReceiverChainId: "minter", ExternalReceiver: hub.HexAddr("x"), ExternalHeight: 10_000_000 + n, TxHash: fmt.Sprintf("0xf%d", n)}
		}, st)
	case "prices", "prices_partial":
		epoch := in.Oracle.GetCurrentEpoch(in.Ctx())
		names := []string{"eth", "ethereum/gas", "bnb", "bsc/gas", "hub", "usdt", "big"}
		if it == "prices_partial" {
			names = names[:3]
		}
		for vi, v := range c.Vals {
			var list []*oracletypes.Price
			for i, n := range names {
				list = append(list, &oracletypes.Price{Name: n, Value: sdk.NewDec(int64(100 + i + vi))})
			}
			c.txOutcome(in.DeliverMsg(&oracletypes.MsgPriceClaim{Epoch: epoch, Prices: &oracletypes.Prices{List: list}, Orchestrator: v.Acc.String()}), st)
		}
	case "prices_extra_name_by_powerless":
		// a quorum reports the usual prices; the two validators without oracle power add a name nobody else reports
		epoch := in.Oracle.GetCurrentEpoch(in.Ctx())
		names := []string{"eth", "ethereum/gas", "bnb", "bsc/gas", "hub", "usdt", "big"}
		for vi, v := range append(append([]hub.Validator{}, c.Vals...), c.Extra...) {
			var list []*oracletypes.Price
			for i, n := range names {
				list = append(list, &oracletypes.Price{Name: n, Value: sdk.NewDec(int64(100 + i + vi))})
			}
			if vi >= len(c.Vals) {
				list = append(list, &oracletypes.Price{Name: "doge", Value: sdk.NewDec(7)})
			}
			c.txOutcome(in.DeliverMsg(&oracletypes.MsgPriceClaim{Epoch: epoch, Prices: &oracletypes.Prices{List: list}, Orchestrator: v.Acc.String()}), st)
		}
	case "holders_nil_last_empty_majority":
		// the three large validators honestly report an EMPTY holders list; the validator without oracle power reports
		// no list at all, last
		epoch := in.Oracle.GetCurrentEpoch(in.Ctx())
		for _, v := range c.Vals {
			c.txOutcome(in.DeliverMsg(&oracletypes.MsgHoldersClaim{Epoch: epoch, Holders: &oracletypes.Holders{}, Orchestrator: v.Acc.String()}), st)
		}
		c.txOutcome(in.DeliverMsg(&oracletypes.MsgHoldersClaim{Epoch: epoch, Orchestrator: c.Extra[0].Acc.String()}), st)
	case "holders_one_nil", "prices_dup_name", "prices_huge_extra", "prices_nil_value_extra", "prices_negative_extra":
		// a quorum reports as usual; validator A's report is hostile but passes stateless validation
		epoch := in.Oracle.GetCurrentEpoch(in.Ctx())
		names := []string{"eth", "ethereum/gas", "bnb", "bsc/gas", "hub", "usdt", "big"}
		for vi, v := range c.Vals {
			if it == "holders_one_nil" {
				m := &oracletypes.MsgHoldersClaim{Epoch: epoch, Holders: &oracletypes.Holders{List: []*oracletypes.Holder{{Address: hub.HexAddr("x"), Value: sdk.NewInt(5)}}}, Orchestrator: v.Acc.String()}
				if vi == 0 {
					m.Holders = nil
				}
				c.txOutcome(in.DeliverMsg(m), st)
				continue
			}
			var list []*oracletypes.Price
			for i, n := range names {
				list = append(list, &oracletypes.Price{Name: n, Value: sdk.NewDec(int64(100 + i + vi))})
			}
			if vi == 0 {
				switch it {
				case "prices_dup_name":
					list = append(list, &oracletypes.Price{Name: "hub", Value: sdk.ZeroDec()}, &oracletypes.Price{Name: "eth", Value: sdk.NewDec(-5)})
				case "prices_huge_extra":
					list = append(list, &oracletypes.Price{Name: "doge", Value: sdk.NewDecFromBigIntWithPrec(new(big.Int).Lsh(big.NewInt(1), 315), 18)})
				case "prices_nil_value_extra":
					list = append(list, &oracletypes.Price{Name: "doge"})
				case "prices_negative_extra":
					list = append(list, &oracletypes.Price{Name: "doge", Value: sdk.NewDec(-1)})
				}
			} else if it == "prices_huge_extra" && vi == 1 {
				list = append(list, &oracletypes.Price{Name: "doge", Value: sdk.NewDecFromBigIntWithPrec(new(big.Int).Lsh(big.NewInt(1), 315), 18)})
			}
			c.txOutcome(in.DeliverMsg(&oracletypes.MsgPriceClaim{Epoch: epoch, Prices: &oracletypes.Prices{List: list}, Orchestrator: v.Acc.String()}), st)
		}
	case "prop_cold_hub", "prop_tokeninfos_empty":
		// governance proposals that pass their own ValidateBasic
		var content interface {
			ValidateBasic() error
		}
		var err error
		if it == "prop_cold_hub" {
			p := &mhubtypes.ColdStorageTransferProposal{ChainId: "hub", Amount: sdk.NewCoins(sdk.NewInt64Coin("hub", 5))}
			content = p
			if content.ValidateBasic() == nil {
				if pp := hubGuard(func() { err = in.Proposal(p) }); pp != nil {
					st.Violate("C05", "panic_in_proposal_handler", "NewMhub2ProposalHandler: "+panicClass(pp), "an admissible %T halts the chain when it is executed (x/gov's EndBlocker does not recover): %v", p, pp)
				}
			}
		} else {
			p := &mhubtypes.TokenInfosChangeProposal{}
			content = p
			if content.ValidateBasic() == nil {
				if pp := hubGuard(func() { err = in.Proposal(p) }); pp != nil {
					st.Violate("C05", "panic_in_proposal_handler", "NewMhub2ProposalHandler: "+panicClass(pp), "an admissible %T halts the chain when it is executed (x/gov's EndBlocker does not recover): %v", p, pp)
				}
			}
		}
		_ = err
	case "holders_by_powerless":
		epoch := in.Oracle.GetCurrentEpoch(in.Ctx())
		for vi, v := range append(append([]hub.Validator{}, c.Vals...), c.Extra...) {
			l := []*oracletypes.Holder{{Address: hub.HexAddr("x"), Value: sdk.NewInt(5)}}
			if vi >= len(c.Vals) {
				l = []*oracletypes.Holder{{Address: hub.HexAddr("y"), Value: sdk.NewInt(9)}}
			}
			c.txOutcome(in.DeliverMsg(&oracletypes.MsgHoldersClaim{Epoch: epoch, Holders: &oracletypes.Holders{List: l}, Orchestrator: v.Acc.String()}), st)
		}
	case "holders":
		epoch := in.Oracle.GetCurrentEpoch(in.Ctx())
		for _, v := range c.Vals {
			c.txOutcome(in.DeliverMsg(&oracletypes.MsgHoldersClaim{Epoch: epoch, Holders: &oracletypes.Holders{List: []*oracletypes.Holder{{Address: hub.HexAddr("x"), Value: two(255)}}}, Orchestrator: v.Acc.String()}), st)
		}
	default:
		panic("unknown item " + it)
	}
}

// ClassifyStuck: structural deadlock verdict. The transition goroutine must sit in
// sync.(*RWMutex).Lock under tm-db MemDB Set/Delete while a MemDB iterator goroutine is blocked
// sending into its channel, identically in two dumps taken cfg.Confirm apart.
func (c *C05) ClassifyStuck(op engine.Op, a, b string, gid int64) []engine.Violation {
	ga, gb := engine.GoroutineBlock(a, gid), engine.GoroutineBlock(b, gid)
	sig := func(g string) bool {
		return strings.Contains(g, "sync.(*RWMutex).Lock") && strings.Contains(g, "tm-db.(*MemDB).")
	}
	producer := func(d string) bool {
		return strings.Contains(d, "newMemDBIteratorMtxChoice.func1") && strings.Contains(d, "[select")
	}
	if !(sig(ga) && sig(gb) && producer(a) && producer(b)) {
		return nil
	}
	site := "unknown"
	for _, l := range strings.Split(gb, "\n") {
		if strings.Contains(l, "github.com/MinterTeam/mhub2/module/x/") && !strings.HasPrefix(l, "\t") {
			fn := l
			if j := strings.LastIndex(fn, "("); j > 0 {
				fn = fn[:j]
			}
			site = strings.TrimPrefix(fn, "github.com/MinterTeam/mhub2/module/x/")
		}
	}
	return []engine.Violation{{Property: "C05", Rule: "deadlock_store_iterator", Site: site,
		Detail: fmt.Sprintf("block %v never returns: block goroutine waits for the MemDB write lock (cachekv sorted cache) held by the iterator goroutine of an open iterator over the same store; stack:\n%s", op, gb)}}
}

func init() {
	Register("C05", func(tier string) *Runner {
		mk := func(tier string) (*C05, engine.Config) {
			cfg := engine.Config{MaxDepth: 2, Deadline: 300 * time.Second, ReplayLeaf: 20, Horizon: 8 * time.Second, Confirm: 4 * time.Second}
			if tier == "thorough" {
				cfg = engine.Config{MaxDepth: 3, Deadline: 25 * time.Minute, ReplayLeaf: 100, Horizon: 30 * time.Second, Confirm: 10 * time.Second}
			}
			return NewC05(tier), cfg
		}
		return &Runner{
			Run: func(o RunOpts) Output {
				sc, cfg := mk(o.Tier)
				cfg.Known = o.Known
				if o.Workers > 0 {
					cfg.Workers = o.Workers
				}
				res := engine.Run(sc, cfg)
				out := BFSOutput(res, cfg, []string{
					"every transition is one whole block executed on a block-scoped CacheMultiStore with per-tx cache layers (the layering of baseapp); states are block boundaries",
					fmt.Sprintf("block items %v, pairs %v, longer blocks %v, block time steps {5 s, timeout+1 s}", sc.Items, sc.Pairs, sc.Lists),
					"hostile claims are voted by all three validators, i.e. they model what every honest orchestrator/connector would report for a hostile external transaction, or a >=66% coalition",
					"a transition that exceeds the horizon is a violation only with the structural deadlock signature in two stack dumps; otherwise it is reported as pruned (exhaustive=false), never as a violation",
					"validators A,B,C hold 30000 each; a fourth bonded validator holds 1 (below the oracle's 16-bit power resolution: normalised oracle power 0) and a fifth is registered but unbonded; a zero total power is not generated (x/staking never bonds a validator with zero power)",
					"second part: the application as wired in app.go (app.NewMhub2App, real x/staking, x/slashing, x/distribution and the bridge's staking hooks) with three genesis validators of 100 power, x/slashing window 4 blocks; one op = one block; messages are routed like transactions but without the ante handler (no fees, no signatures)",
				})
				if len(out.Violations) > 0 || out.InternalError != "" {
					return out
				}
				cov, found := c05AppSearch(o.Tier, o.Workers)
				if c, ok := out.Evidence["coverage"].(map[string]interface{}); ok {
					for k, v := range cov {
						c[k] = v
					}
				}
				if found != nil {
					// the same path must fail every time before it is believed
					n := 0
					for i := 0; i < 5; i++ {
						if len(c05AppReplay(found.Path)) > 0 {
							n++
						}
					}
					found.Reproduced = n
					if n == 5 || found.Violation.Rule == "application_hash_differs_between_replays" {
						out.Violations = append(out.Violations, *found)
					} else {
						out.InternalError = fmt.Sprintf("application path %v failed once and %d of 5 times when replayed", found.Path, n)
					}
				}
				out.Summary += fmt.Sprintf(" app_states=%v app_transitions=%v app_blocks=%v", cov["application_states"], cov["application_transitions"], cov["application_blocks_executed"])
				return out
			},
			Replay: func(tier string, seed int, ops []engine.Op) []engine.Violation {
				if len(ops) > 0 && strings.HasPrefix(ops[0].Kind, "App:") {
					return c05AppReplay(ops)
				}
				sc, _ := mk(tier)
				_, steps := sc.Replay(sc.NewWorker(), seed, ops)
				var vs []engine.Violation
				for _, s := range steps {
					vs = append(vs, s.Violations...)
				}
				return vs
			},
		}
	})
}
