// connov generates the `go build -modfile … -overlay …` description that lets the C20 harness drive the
// real minter-connector code of /repo without touching it:
//
//	connov -repo /repo -harness /verif/mcconn -out /verif/.build/c20
//
// It writes
//   - alt.mod / alt.sum : minter-connector's go.mod with its (broken in place) relative replace of
//     github.com/MinterTeam/mhub2/module pointed at <repo>/module
//   - overlay.json with
//       * a virtual package <connector>/verifhook (environment seams: file write/read, sleep, commit)
//       * copies of the connector's own sources in which calls of os.WriteFile / os.ReadFile /
//         time.Sleep are redirected to verifhook (AST rewrite of the CURRENT tree: nothing else changes)
//       * tx_committer/server.go with RunServer and (*Server).CommitTx renamed (bodies kept, so the file
//         still type-checks against its imports) plus a stub file providing recording replacements
//       * the harness test files placed into package main (cmd/mhub-minter-connector) and command
//   - config.toml for the package-level config.Get()
//   - sites.json : the rewritten call sites (goes into the evidence)
package main

import (
	"bytes"
	"encoding/json"
	"flag"
	"fmt"
	"go/ast"
	"go/parser"
	"go/printer"
	"go/token"
	"os"
	"path/filepath"
	"regexp"
	"sort"
	"strings"
)

const connMod = "github.com/MinterTeam/mhub2/minter-connector"

type site struct {
	File string `json:"file"`
	Line int    `json:"line"`
	Call string `json:"call"`
}

func must(err error) {
	if err != nil {
		fmt.Fprintln(os.Stderr, "connov:", err)
		os.Exit(1)
	}
}

var redirect = map[string]string{
	"os.WriteFile": "WriteFile",
	"os.ReadFile":  "ReadFile",
	"time.Sleep":   "Sleep",
	"ioutil.WriteFile": "WriteFile",
	"ioutil.ReadFile":  "ReadFile",
}

func rewriteFile(fset *token.FileSet, path string, renames map[string]string) ([]byte, []site, bool) {
	f, err := parser.ParseFile(fset, path, nil, parser.ParseComments)
	must(err)
	var sites []site
	changed := false
	used := map[string]bool{}
	ast.Inspect(f, func(n ast.Node) bool {
		switch x := n.(type) {
		case *ast.CallExpr:
			if sel, ok := x.Fun.(*ast.SelectorExpr); ok {
				if id, ok := sel.X.(*ast.Ident); ok && id.Obj == nil {
					key := id.Name + "." + sel.Sel.Name
					if to, ok := redirect[key]; ok {
						sites = append(sites, site{File: path, Line: fset.Position(x.Pos()).Line, Call: key})
						id.Name = "verifhook"
						sel.Sel.Name = to
						changed = true
					}
				}
			}
		case *ast.FuncDecl:
			name := x.Name.Name
			if x.Recv != nil && len(x.Recv.List) == 1 {
				var b bytes.Buffer
				printer.Fprint(&b, fset, x.Recv.List[0].Type)
				name = "(" + b.String() + ")." + name
			}
			if to, ok := renames[name]; ok {
				sites = append(sites, site{File: path, Line: fset.Position(x.Pos()).Line, Call: "func " + name + " -> " + to})
				x.Name.Name = to
				changed = true
			}
		}
		return true
	})
	if !changed {
		return nil, nil, false
	}
	// which package identifiers are still referenced
	ast.Inspect(f, func(n ast.Node) bool {
		if sel, ok := n.(*ast.SelectorExpr); ok {
			if id, ok := sel.X.(*ast.Ident); ok && id.Obj == nil {
				used[id.Name] = true
			}
		}
		return true
	})
	var buf bytes.Buffer
	must(printer.Fprint(&buf, fset, f))
	src := buf.String()
	// keep now-unused imports alive (appended at the end of the file)
	tail := ""
	keep := map[string]string{"os": "os.ModePerm", "time": "time.Second", "io/ioutil": "ioutil.Discard"}
	for _, imp := range f.Imports {
		p := strings.Trim(imp.Path.Value, `"`)
		base := p[strings.LastIndex(p, "/")+1:]
		if imp.Name != nil {
			continue
		}
		if k, ok := keep[p]; ok && !used[base] {
			tail += "var _ = " + k + "\n"
		}
	}
	if !used["verifhook"] {
		tail += "var _ = verifhook.Sleep\n"
	}
	re := regexp.MustCompile(`(?m)^package\s+\w+\s*$`)
	loc := re.FindStringIndex(src)
	if loc == nil {
		must(fmt.Errorf("%s: no package clause", path))
	}
	// the import goes right after the package clause (before the file's own import block)
	imp := "\nimport verifhook \"" + connMod + "/verifhook\"\n"
	src = src[:loc[1]] + imp + src[loc[1]:] + "\n" + tail
	return []byte(src), sites, true
}

func main() {
	repo := flag.String("repo", "/repo", "repository root")
	harness := flag.String("harness", "/verif/mcconn", "harness sources")
	out := flag.String("out", "/verif/.build/c20", "output directory")
	flag.Parse()
	conn := filepath.Join(*repo, "minter-connector")
	must(os.MkdirAll(filepath.Join(*out, "src"), 0o755))

	// alt.mod / alt.sum
	mod, err := os.ReadFile(filepath.Join(conn, "go.mod"))
	must(err)
	re := regexp.MustCompile(`(?m)^replace\s+github\.com/MinterTeam/mhub2/module\s*=>.*$`)
	if !re.Match(mod) {
		must(fmt.Errorf("go.mod: replace of the module not found"))
	}
	mod = re.ReplaceAll(mod, []byte("replace github.com/MinterTeam/mhub2/module => "+filepath.Join(*repo, "module")))
	must(os.WriteFile(filepath.Join(*out, "alt.mod"), mod, 0o644))
	sum, err := os.ReadFile(filepath.Join(conn, "go.sum"))
	must(err)
	// the module's own go.sum entries are needed as well (its dependencies are resolved through the replace)
	msum, _ := os.ReadFile(filepath.Join(*repo, "module", "go.sum"))
	must(os.WriteFile(filepath.Join(*out, "alt.sum"), append(append(sum, '\n'), msum...), 0o644))

	overlay := map[string]string{}
	var sites []site
	fset := token.NewFileSet()
	// rewrite every non-test, non-generated source of the connector
	must(filepath.Walk(conn, func(p string, info os.FileInfo, err error) error {
		if err != nil {
			return err
		}
		if info.IsDir() || !strings.HasSuffix(p, ".go") || strings.HasSuffix(p, "_test.go") || strings.HasSuffix(p, ".pb.go") {
			return nil
		}
		renames := map[string]string{}
		rel, _ := filepath.Rel(conn, p)
		if rel == filepath.Join("tx_committer", "server.go") {
			renames = map[string]string{"RunServer": "runServerOrig", "(*Server).CommitTx": "commitTxOrig"}
		}
		src, ss, ok := rewriteFile(fset, p, renames)
		if !ok {
			return nil
		}
		dst := filepath.Join(*out, "src", strings.ReplaceAll(rel, string(filepath.Separator), "__"))
		must(os.WriteFile(dst, src, 0o644))
		overlay[p] = dst
		sites = append(sites, ss...)
		return nil
	}))
	have := map[string]bool{}
	for _, s := range sites {
		have[s.Call] = true
	}
	for _, need := range []string{"func RunServer -> runServerOrig", "func (*Server).CommitTx -> commitTxOrig"} {
		if !have[need] {
			must(fmt.Errorf("tx_committer/server.go: %s not found (source layout changed)", need))
		}
	}

	// virtual files
	add := func(virtual, real string) { overlay[filepath.Join(conn, virtual)] = real }
	add("verifhook/hook.go", filepath.Join(*harness, "verifhook", "hook.go.txt"))
	// the hub instance builder of the verification module, compiled inside the connector module (C08, Minter half)
	hubDir := filepath.Join(filepath.Dir(*harness), "mc", "hub")
	hubFiles, _ := filepath.Glob(filepath.Join(hubDir, "*.go"))
	for _, f := range hubFiles {
		if strings.HasSuffix(f, "_test.go") {
			continue
		}
		add(filepath.Join("verifhub", filepath.Base(f)), f)
	}
	add("tx_committer/verif_stub.go", filepath.Join(*harness, "stub", "committer_stub.go.txt"))
	hs, _ := filepath.Glob(filepath.Join(*harness, "harness", "*.go.txt"))
	sort.Strings(hs)
	for _, h := range hs {
		base := strings.TrimSuffix(filepath.Base(h), ".txt")
		add(filepath.Join("cmd", "mhub-minter-connector", base), h)
	}

	cfg := `[minter]
chain = "testnet"
multisig_addr = "Mx68f4839d7f32831b9234f9575f3b95e1afe21a56"
private_key = "0000000000000000000000000000000000000000000000000000000000000001"
api_addr = "http://127.0.0.1:1/v2/"
start_block = 0
start_event_nonce = 1
start_batch_nonce = 1
start_valset_nonce = 1

[cosmos]
mnemonic = "abandon abandon abandon abandon abandon abandon abandon abandon abandon abandon abandon about"
grpc_addr = "127.0.0.1:1"
rpc_addr = "http://127.0.0.1:1"
`
	must(os.WriteFile(filepath.Join(*out, "config.toml"), []byte(cfg), 0o644))

	ov, _ := json.MarshalIndent(map[string]interface{}{"Replace": overlay}, "", " ")
	must(os.WriteFile(filepath.Join(*out, "overlay.json"), ov, 0o644))
	sj, _ := json.MarshalIndent(sites, "", " ")
	must(os.WriteFile(filepath.Join(*out, "sites.json"), sj, 0o644))
	fmt.Printf("connov: %d files in overlay, %d redirected call sites / renamed functions\n", len(overlay), len(sites))
}
