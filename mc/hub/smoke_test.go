package hub

import (
	"testing"
	"time"

	sdk "github.com/cosmos/cosmos-sdk/types"
	mhubtypes "github.com/MinterTeam/mhub2/module/x/mhub2/types"
	oracletypes "github.com/MinterTeam/mhub2/module/x/oracle/types"
)

func TestSmoke(t *testing.T) {
	in := New()
	vals := []Validator{NewValidator("A"), NewValidator("B"), NewValidator("C")}
	u := User("u1")
	g := Genesis{Hub: *mhubtypes.DefaultGenesisState(), Oracle: *oracletypes.DefaultGenesisState()}
	for _, v := range vals {
		g.Accounts = append(g.Accounts, v.Acc, v.Orch)
		g.Staking = append(g.Staking, ValState{Oper: v.Oper.String(), Bonded: true, Power: 10})
	}
	g.Accounts = append(g.Accounts, u)
	g.Balances = map[string]sdk.Coins{u.String(): sdk.NewCoins(sdk.NewInt64Coin("hub", 1000000))}
	t0 := time.Now()
	in.InitGenesis(g)
	t.Log("genesis", time.Since(t0))
	for _, v := range vals {
		r := in.DeliverMsg(DelegateKeysMsg(in.Cdc, v, "ethereum", v.Orch, v.EthKey, 0))
		if !r.OK() {
			t.Fatal(r.Err, r.Panic)
		}
	}
	r := in.DeliverMsg(mhubtypes.NewMsgSendToExternal("ethereum", u, HexAddr("r1"), sdk.NewInt64Coin("hub", 1000), sdk.NewInt64Coin("hub", 10)))
	if !r.OK() {
		t.Fatal(r.Err, r.Panic)
	}
	t0 = time.Now()
	s := in.Snapshot()
	t.Log("snapshot", time.Since(t0), s.Digest(), len(s.Stores["mhub2"]), len(s.Stores["bank"]), len(s.Stores["acc"]), len(s.Stores["params"]))
	if p := in.NextBlock(5); p != nil {
		t.Fatal(p)
	}
	s2 := in.Snapshot()
	t.Log(DiffStores(s, s2))
	t0 = time.Now()
	in2 := New()
	t.Log("new", time.Since(t0))
	t0 = time.Now()
	in2.Restore(s)
	t.Log("restore", time.Since(t0))
	if p := in2.NextBlock(5); p != nil {
		t.Fatal(p)
	}
	if in2.Snapshot().Digest() != s2.Digest() {
		t.Fatal("restore+block diverges", DiffStores(in2.Snapshot(), s2))
	}
	ev := &mhubtypes.SendToHubEvent{EventNonce: 1, ExternalCoinId: "0xA091Bb826756eA25114c512B916754b3fBCb4f63", Amount: sdk.NewInt(500), Sender: HexAddr("s"), CosmosReceiver: u.String(), ExternalHeight: 100, TxHash: "0xabc"}
	for _, v := range vals {
		r := in.DeliverMsg(EventMsg(v.Orch, "ethereum", ev))
		if !r.OK() {
			t.Fatal(r.Err, r.Panic)
		}
	}
	t0 = time.Now()
	if p := in.NextBlock(5); p != nil {
		t.Fatal(p)
	}
	t.Log("block", time.Since(t0))
	t.Log(in.Bank.GetAllBalances(in.Ctx(), u), in.Hub.GetLastObservedEventNonce(in.Ctx(), "ethereum"))
}

func TestDbg(t *testing.T) {
	in := New()
	g := Genesis{Hub: *mhubtypes.DefaultGenesisState(), Oracle: *oracletypes.DefaultGenesisState()}
	in.InitGenesis(g)
	s := in.Snapshot()
	for _, kv := range s.Stores["params"] {
		t.Logf("%s = %q", kv.K, kv.V)
	}
	in2 := New()
	in2.Restore(s)
	s2 := in2.Snapshot()
	t.Log(DiffStores(s, s2))
	p := in2.NextBlock(5)
	if p != nil {
		t.Log(p.Stack)
	}
}
