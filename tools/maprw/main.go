// maprw generates a `go build -overlay` description in which every `range` over a map in the
// production code of x/mhub2 and x/oracle asks the explorer for the iteration order.
//
//	maprw -module /repo/module -out /verif/.build/c06overlay
//
// For each site   for k, v := range m { body }   it emits
//
//	for _, __vk := range verifhook.Order(m) { k := __vk.Interface().(K); v := m[k]; body }
//
// (reflection instead of generics: the module is `go 1.17`). The package
// github.com/MinterTeam/mhub2/module/x/verifhook exists only in the overlay. Sites whose key type
// cannot be spelled are left alone and reported as uninstrumented.
package main

import (
	"bytes"
	"encoding/json"
	"flag"
	"fmt"
	"go/ast"
	"go/printer"
	"go/token"
	"go/types"
	"os"
	"path/filepath"
	"sort"
	"strings"

	"golang.org/x/tools/go/ast/astutil"
	"golang.org/x/tools/go/packages"
)

const hookPath = "github.com/MinterTeam/mhub2/module/x/verifhook"

const hookSrc = `// Package verifhook exists only in the verification overlay: it lets the explorer decide the
// iteration order of every map range of the module (the Go specification leaves it unspecified).
package verifhook

import (
	"context"
	"fmt"
	"reflect"
	"sort"
	"time"
)

// pick asks the explorer for one of two answers of the environment at a wall-clock site (0 = default).
func pick(site string) int {
	if Choose == nil {
		return 0
	}
	if perm := Choose("clock:"+site, 2); len(perm) == 2 && perm[0] == 1 {
		return 1
	}
	return 0
}

var clockBase = time.Unix(1_700_000_000, 0)

// WithTimeout / WithDeadline: the deadline either never fires (default) or has already passed.
func WithTimeout(site string, parent context.Context, d time.Duration) (context.Context, context.CancelFunc) {
	if pick(site) == 1 {
		return context.WithDeadline(parent, time.Unix(1, 0))
	}
	return context.WithCancel(parent)
}

func WithDeadline(site string, parent context.Context, t time.Time) (context.Context, context.CancelFunc) {
	return WithTimeout(site, parent, 0)
}

// Now / Since / Until: the wall clock reads a fixed instant (default) or one hour later.
func Now(site string) time.Time {
	if pick(site) == 1 {
		return clockBase.Add(time.Hour)
	}
	return clockBase
}

func Since(site string, t time.Time) time.Duration {
	if pick(site) == 1 {
		return time.Hour
	}
	return 0
}

func Until(site string, t time.Time) time.Duration {
	if pick(site) == 1 {
		return -time.Hour
	}
	return time.Hour
}

// SharedPoint is called before and after every statement that mentions a package-level variable of the module which the
// code can modify after initialisation (shared between the goroutines that serve queries and the one that executes
// blocks). The harness installs it to switch between the two at exactly these points.
var SharedPoint func(name string)

func Shared(name string) {
	if SharedPoint != nil {
		SharedPoint(name)
	}
}

// Globals lists, per package, pointers to every package-level variable of the module (filled by generated init functions):
// the harness hashes what they point to before and after every step.
var Globals = map[string]interface{}{}

func RegisterGlobals(pkg string, vars map[string]interface{}) {
	for n, p := range vars {
		Globals[pkg+"."+n] = p
	}
}

// Choose returns, for a map with n keys (presented in canonical sorted order) at the given site,
// the permutation to iterate in; nil means canonical order. It is installed by the harness and
// must be safe for concurrent use (it is keyed by goroutine there).
var Choose func(site string, n int) []int

// Order returns the keys of m in the order the explorer chose.
func Order(site string, m interface{}) []reflect.Value {
	keys := reflect.ValueOf(m).MapKeys()
	sort.Slice(keys, func(i, j int) bool {
		a, b := keys[i], keys[j]
		switch a.Kind() {
		case reflect.Uint, reflect.Uint8, reflect.Uint16, reflect.Uint32, reflect.Uint64:
			return a.Uint() < b.Uint()
		case reflect.Int, reflect.Int8, reflect.Int16, reflect.Int32, reflect.Int64:
			return a.Int() < b.Int()
		case reflect.String:
			return a.String() < b.String()
		}
		return fmt.Sprint(a.Interface()) < fmt.Sprint(b.Interface())
	})
	if Choose == nil {
		return keys
	}
	perm := Choose(site, len(keys))
	if perm == nil {
		return keys
	}
	if len(perm) != len(keys) {
		panic("verifhook: permutation length mismatch")
	}
	out := make([]reflect.Value, len(keys))
	for i, j := range perm {
		out[i] = keys[j]
	}
	return out
}
`

// sdkOrderSrc is added (by the overlay) to a dependency package whose map ranges are rewritten.
const sdkOrderSrc = `

// VerifOrder is set by the verification harness (to verifhook.Order); nil means sorted key order.
var VerifOrder func(site string, m interface{}) []reflect.Value

func verifOrder(site string, m interface{}) []reflect.Value {
	if VerifOrder != nil {
		return VerifOrder(site, m)
	}
	keys := reflect.ValueOf(m).MapKeys()
	sort.Slice(keys, func(i, j int) bool { return fmt.Sprint(keys[i].Interface()) < fmt.Sprint(keys[j].Interface()) })
	return keys
}
`

type siteInfo struct {
	File string `json:"file"`
	Line int    `json:"line"`
	Key  string `json:"key_type"`
	Kind string `json:"kind,omitempty"` // "" = map range, "clock" = wall clock / timer / randomness / goroutine
	Done bool   `json:"instrumented"`
	Why  string `json:"reason,omitempty"`
}

func main() {
	module := flag.String("module", "/repo/module", "module directory")
	out := flag.String("out", "", "output directory")
	flag.Parse()
	if *out == "" {
		fmt.Fprintln(os.Stderr, "need -out")
		os.Exit(2)
	}
	os.MkdirAll(*out, 0o755)
	cfg := &packages.Config{Mode: packages.NeedName | packages.NeedFiles | packages.NeedSyntax | packages.NeedTypes | packages.NeedTypesInfo | packages.NeedImports, Dir: *module, Tests: false}
	pkgs, err := packages.Load(cfg, "./x/mhub2/...", "./x/oracle/...")
	if err != nil {
		fmt.Fprintln(os.Stderr, "load:", err)
		os.Exit(3)
	}
	// SDK code the modules call to build what a block emits: typed events are turned into attribute lists by ranging
	// over a map (cosmos-sdk v0.45 types/events.go TypedEventToEvent). Only the map ranges of these files are rewritten
	extraFiles := map[string]bool{"types/events.go": true}
	extra, err := packages.Load(cfg, "github.com/cosmos/cosmos-sdk/types")
	if err != nil {
		fmt.Fprintln(os.Stderr, "load:", err)
		os.Exit(3)
	}
	nOwn := len(pkgs)
	pkgs = append(pkgs, extra...)
	overlay := map[string]string{}
	var sites []siteInfo
	gvars, suspects := sharedState(pkgs[:nOwn], &sites)
	for pi, p := range pkgs {
		for _, e := range p.Errors {
			fmt.Fprintln(os.Stderr, "package error:", e)
			os.Exit(3)
		}
		for fi, f := range p.Syntax {
			_ = fi
			fname := p.Fset.Position(f.Pos()).Filename
			if strings.HasSuffix(fname, "_test.go") || strings.HasSuffix(fname, ".pb.go") || strings.HasSuffix(fname, ".pb.gw.go") {
				continue
			}
			sdkFile := pi >= nOwn
			if sdkFile {
				ok := false
				for suf := range extraFiles {
					ok = ok || strings.HasSuffix(fname, "/"+suf)
				}
				if !ok {
					continue
				}
			}
			changed := false
			qual := func(other *types.Package) string {
				if other == p.Types {
					return ""
				}
				return other.Name()
			}
			astutil.Apply(f, nil, func(c *astutil.Cursor) bool {
				// wall clock, timers, randomness, goroutines: consensus code must not depend on them. The calls with a
				// two-valued model become choice points, the others are reported as uninstrumented.
				if _, isRange := c.Node().(*ast.RangeStmt); sdkFile && !isRange {
					return true
				}
				if gs, ok := c.Node().(*ast.GoStmt); ok {
					pos := p.Fset.Position(gs.Pos())
					sites = append(sites, siteInfo{File: pos.Filename, Line: pos.Line, Key: "go statement", Kind: "clock", Why: "goroutine started in module code"})
					return true
				}
				if call, ok := c.Node().(*ast.CallExpr); ok {
					if sel, ok := call.Fun.(*ast.SelectorExpr); ok {
						if fn, ok := p.TypesInfo.Uses[sel.Sel].(*types.Func); ok && fn.Pkg() != nil {
							pos := p.Fset.Position(call.Pos())
							site := fmt.Sprintf("%s:%d", filepath.Base(pos.Filename), pos.Line)
							full := fn.Pkg().Path() + "." + fn.Name()
							switch full {
							case "context.WithTimeout", "context.WithDeadline", "time.Now", "time.Since", "time.Until":
								if sig, ok := fn.Type().(*types.Signature); ok && sig.Recv() == nil {
									call.Fun = &ast.SelectorExpr{X: ast.NewIdent("verifhook"), Sel: ast.NewIdent(fn.Name())}
									call.Args = append([]ast.Expr{&ast.BasicLit{Kind: token.STRING, Value: fmt.Sprintf("%q", site)}}, call.Args...)
									sites = append(sites, siteInfo{File: pos.Filename, Line: pos.Line, Key: full, Kind: "clock", Done: true})
									changed = true
								}
							case "time.After", "time.Tick", "time.NewTimer", "time.NewTicker", "time.AfterFunc", "time.Sleep", "crypto/rand.Read", "crypto/rand.Int":
								sites = append(sites, siteInfo{File: pos.Filename, Line: pos.Line, Key: full, Kind: "clock", Why: "timer / randomness without a two-valued model"})
							default:
								if fn.Pkg().Path() == "math/rand" {
									if sig, ok := fn.Type().(*types.Signature); ok && sig.Recv() == nil {
										sites = append(sites, siteInfo{File: pos.Filename, Line: pos.Line, Key: full, Kind: "clock", Why: "global pseudo-random source"})
									}
								}
							}
						}
					}
					return true
				}
				rs, ok := c.Node().(*ast.RangeStmt)
				if !ok {
					return true
				}
				tv, ok := p.TypesInfo.Types[rs.X]
				if !ok {
					return true
				}
				mt, ok := tv.Type.Underlying().(*types.Map)
				if !ok {
					return true
				}
				pos := p.Fset.Position(rs.Pos())
				si := siteInfo{File: pos.Filename, Line: pos.Line, Key: types.TypeString(mt.Key(), qual)}
				// only basic key types can be spelled without touching imports
				if _, basic := mt.Key().Underlying().(*types.Basic); !basic || strings.Contains(si.Key, ".") {
					si.Why = "key type not a plain basic type"
					sites = append(sites, si)
					return true
				}
				if rs.Tok != token.DEFINE && (rs.Key != nil || rs.Value != nil) {
					si.Why = "range with assignment (=) instead of :="
					sites = append(sites, si)
					return true
				}
				site := fmt.Sprintf("%s:%d", filepath.Base(pos.Filename), pos.Line)
				var pre []ast.Stmt
				keyName := "_"
				if id, ok := rs.Key.(*ast.Ident); ok && id.Name != "_" {
					keyName = id.Name
				}
				needKey := keyName != "_"
				valName := ""
				if id, ok := rs.Value.(*ast.Ident); ok && id.Name != "_" {
					valName = id.Name
				}
				kvar := keyName
				if !needKey && valName != "" {
					kvar = "__vkey"
				}
				if needKey || valName != "" {
					// k := __vk.Interface().(K)
					pre = append(pre, &ast.AssignStmt{Lhs: []ast.Expr{ast.NewIdent(kvar)}, Tok: token.DEFINE, Rhs: []ast.Expr{
						&ast.TypeAssertExpr{X: &ast.CallExpr{Fun: &ast.SelectorExpr{X: ast.NewIdent("__vk"), Sel: ast.NewIdent("Interface")}}, Type: ast.NewIdent(si.Key)}}})
				}
				if valName != "" {
					pre = append(pre, &ast.AssignStmt{Lhs: []ast.Expr{ast.NewIdent(valName)}, Tok: token.DEFINE, Rhs: []ast.Expr{&ast.IndexExpr{X: rs.X, Index: ast.NewIdent(kvar)}}})
				}
				if needKey {
					// avoid "declared but not used" if the body never reads k
					pre = append(pre, &ast.AssignStmt{Lhs: []ast.Expr{ast.NewIdent("_")}, Tok: token.ASSIGN, Rhs: []ast.Expr{ast.NewIdent(kvar)}})
				}
				if valName != "" {
					pre = append(pre, &ast.AssignStmt{Lhs: []ast.Expr{ast.NewIdent("_")}, Tok: token.ASSIGN, Rhs: []ast.Expr{ast.NewIdent(valName)}})
				}
				body := &ast.BlockStmt{List: append(pre, rs.Body.List...)}
				var orderFn ast.Expr = &ast.SelectorExpr{X: ast.NewIdent("verifhook"), Sel: ast.NewIdent("Order")}
				if sdkFile {
					// a dependency cannot import the overlay-only hook package: it calls a function variable of its own
					// package (added by the overlay) which the harness points at verifhook.Order
					orderFn = ast.NewIdent("verifOrder")
				}
				repl := &ast.RangeStmt{Key: ast.NewIdent("_"), Value: ast.NewIdent("__vk"), Tok: token.DEFINE,
					X:    &ast.CallExpr{Fun: orderFn, Args: []ast.Expr{&ast.BasicLit{Kind: token.STRING, Value: fmt.Sprintf("%q", site)}, rs.X}},
					Body: body}
				c.Replace(repl)
				si.Done = true
				sites = append(sites, si)
				changed = true
				return true
			})
			if !sdkFile && instrumentShared(p, f, suspects) {
				changed = true
			}
			if !changed {
				continue
			}
			if sdkFile {
				// (the go command lists the files of a module-cache package from its index: an overlay can replace such a
				// file but not add one, so the helper is appended to the rewritten file itself)
				for _, imp := range []string{"fmt", "reflect", "sort"} {
					astutil.AddImport(p.Fset, f, imp)
				}
				var buf bytes.Buffer
				if err := printer.Fprint(&buf, p.Fset, f); err != nil {
					fmt.Fprintln(os.Stderr, err)
					os.Exit(3)
				}
				buf.WriteString(sdkOrderSrc)
				dst := filepath.Join(*out, "sdk__"+filepath.Base(filepath.Dir(fname))+"__"+filepath.Base(fname))
				os.WriteFile(dst, buf.Bytes(), 0o644)
				overlay[fname] = dst
				continue
			}
			astutil.AddImport(p.Fset, f, hookPath)
			for _, imp := range []string{"context", "time"} {
				if !astutil.UsesImport(f, imp) {
					astutil.DeleteImport(p.Fset, f, imp)
				}
			}
			var buf bytes.Buffer
			if err := printer.Fprint(&buf, p.Fset, f); err != nil {
				fmt.Fprintln(os.Stderr, err)
				os.Exit(3)
			}
			rel, _ := filepath.Rel(*module, fname)
			if sdkFile {
				rel = "sdk__" + filepath.Base(filepath.Dir(fname)) + "__" + filepath.Base(fname)
			}
			dst := filepath.Join(*out, strings.ReplaceAll(rel, string(filepath.Separator), "__"))
			os.WriteFile(dst, buf.Bytes(), 0o644)
			overlay[fname] = dst
		}
	}
	for _, p := range pkgs {
		names := gvars[p.PkgPath]
		if len(names) == 0 || len(p.GoFiles) == 0 {
			continue
		}
		sort.Strings(names)
		var b bytes.Buffer
		fmt.Fprintf(&b, "package %s\n\nimport verifhook %q\n\nfunc init() {\n\tverifhook.RegisterGlobals(%q, map[string]interface{}{\n", p.Name, hookPath, p.PkgPath)
		for _, n := range names {
			fmt.Fprintf(&b, "\t\t%q: &%s,\n", n, n)
		}
		b.WriteString("\t})\n}\n")
		dst := filepath.Join(*out, "globals__"+strings.ReplaceAll(strings.TrimPrefix(p.PkgPath, "github.com/MinterTeam/mhub2/module/"), "/", "__")+".go")
		os.WriteFile(dst, b.Bytes(), 0o644)
		overlay[filepath.Join(filepath.Dir(p.GoFiles[0]), "zz_verif_globals.go")] = dst
	}
	hookFile := filepath.Join(*out, "verifhook.go")
	os.WriteFile(hookFile, []byte(hookSrc), 0o644)
	overlay[filepath.Join(*module, "x", "verifhook", "hook.go")] = hookFile
	ob, _ := json.MarshalIndent(map[string]interface{}{"Replace": overlay}, "", " ")
	os.WriteFile(filepath.Join(*out, "overlay.json"), ob, 0o644)
	sb, _ := json.MarshalIndent(sites, "", " ")
	os.WriteFile(filepath.Join(*out, "sites.json"), sb, 0o644)
	n, nm, nc, ng, nsus := 0, 0, 0, 0, 0
	for _, s := range sites {
		if s.Done {
			n++
		}
		switch s.Kind {
		case "clock":
			nc++
		case "global":
			ng++
			if s.Done {
				nsus++
			}
		default:
			nm++
		}
	}
	fmt.Printf("maprw: %d map-range sites, %d wall-clock/timer/randomness/goroutine sites, %d package-level variables (%d modifiable after initialisation), %d instrumented, %d files rewritten\n", nm, nc, ng, nsus, n, len(overlay)-1)
}


func skipFile(name string) bool {
	return strings.HasSuffix(name, "_test.go") || strings.HasSuffix(name, ".pb.go") || strings.HasSuffix(name, ".pb.gw.go")
}

// receiver types whose pointer-receiver methods do not change what a package-level variable of that type refers to in a way
// another goroutine could observe half-done: registered errors, codecs, compiled regular expressions, synchronisation
// primitives, cobra commands (client side only)
var quietReceivers = []string{"github.com/cosmos/cosmos-sdk/types/errors.", "github.com/cosmos/cosmos-sdk/codec", "regexp.", "sync.", "sync/atomic.",
	"github.com/spf13/cobra.", "github.com/cosmos/cosmos-sdk/x/params/types."}

// rootVar returns the package-level variable an expression is rooted in (x, x.f, x[i], *x, pkg.x ...), or nil.
func rootVar(info *types.Info, e ast.Expr) *types.Var {
	for {
		switch x := e.(type) {
		case *ast.ParenExpr:
			e = x.X
		case *ast.StarExpr:
			e = x.X
		case *ast.IndexExpr:
			e = x.X
		case *ast.SliceExpr:
			e = x.X
		case *ast.SelectorExpr:
			if id, ok := x.X.(*ast.Ident); ok {
				if _, isPkg := info.Uses[id].(*types.PkgName); isPkg {
					e = x.Sel
					continue
				}
			}
			e = x.X
		case *ast.Ident:
			if v, ok := info.Uses[x].(*types.Var); ok && v.Pkg() != nil && v.Parent() == v.Pkg().Scope() {
				return v
			}
			return nil
		default:
			return nil
		}
	}
}

// sharedState lists the package-level variables of the module packages and decides which of them the code can modify after
// initialisation: assigned to (or through), incremented, address taken, or receiver of a pointer-receiver method of a type
// that is not known to be quiet - outside init functions. These are shared between the goroutines that serve queries and
// the one that executes blocks.
func sharedState(pkgs []*packages.Package, sites *[]siteInfo) (map[string][]string, map[*types.Var]string) {
	gvars := map[string][]string{}
	all := map[*types.Var]token.Position{}
	for _, p := range pkgs {
		for _, f := range p.Syntax {
			fname := p.Fset.Position(f.Pos()).Filename
			if skipFile(fname) {
				continue
			}
			for _, d := range f.Decls {
				gd, ok := d.(*ast.GenDecl)
				if !ok || gd.Tok != token.VAR {
					continue
				}
				for _, sp := range gd.Specs {
					for _, id := range sp.(*ast.ValueSpec).Names {
						if id.Name == "_" {
							continue
						}
						if v, ok := p.TypesInfo.Defs[id].(*types.Var); ok {
							all[v] = p.Fset.Position(id.Pos())
							gvars[p.PkgPath] = append(gvars[p.PkgPath], id.Name)
						}
					}
				}
			}
		}
	}
	why := map[*types.Var]string{}
	mark := func(v *types.Var, reason string, pos token.Position) {
		if v == nil {
			return
		}
		if _, ours := all[v]; !ours {
			return
		}
		if _, done := why[v]; !done {
			why[v] = fmt.Sprintf("%s at %s:%d", reason, filepath.Base(pos.Filename), pos.Line)
		}
	}
	for _, p := range pkgs {
		for _, f := range p.Syntax {
			fname := p.Fset.Position(f.Pos()).Filename
			if skipFile(fname) {
				continue
			}
			for _, d := range f.Decls {
				fd, ok := d.(*ast.FuncDecl)
				if !ok || fd.Body == nil || (fd.Recv == nil && fd.Name.Name == "init") {
					continue
				}
				ast.Inspect(fd.Body, func(n ast.Node) bool {
					switch x := n.(type) {
					case *ast.AssignStmt:
						if x.Tok != token.DEFINE {
							for _, l := range x.Lhs {
								mark(rootVar(p.TypesInfo, l), "assigned", p.Fset.Position(l.Pos()))
							}
						}
					case *ast.IncDecStmt:
						mark(rootVar(p.TypesInfo, x.X), "incremented", p.Fset.Position(x.Pos()))
					case *ast.UnaryExpr:
						if x.Op == token.AND {
							mark(rootVar(p.TypesInfo, x.X), "address taken", p.Fset.Position(x.Pos()))
						}
					case *ast.CallExpr:
						sel, ok := x.Fun.(*ast.SelectorExpr)
						if !ok {
							return true
						}
						se, ok := p.TypesInfo.Selections[sel]
						if !ok || se.Kind() != types.MethodVal {
							return true
						}
						fn, ok := se.Obj().(*types.Func)
						if !ok {
							return true
						}
						sig := fn.Type().(*types.Signature)
						if sig.Recv() == nil {
							return true
						}
						if _, ptr := sig.Recv().Type().(*types.Pointer); !ptr {
							return true
						}
						rt := types.TypeString(sig.Recv().Type(), nil)
						rt = strings.TrimPrefix(rt, "*")
						for _, q := range quietReceivers {
							if strings.HasPrefix(rt, q) {
								return true
							}
						}
						mark(rootVar(p.TypesInfo, sel.X), "receiver of "+rt+"."+fn.Name(), p.Fset.Position(x.Pos()))
					}
					return true
				})
			}
		}
	}
	suspects := map[*types.Var]string{}
	for v, pos := range all {
		name := v.Pkg().Path() + "." + v.Name()
		si := siteInfo{File: pos.Filename, Line: pos.Line, Key: name, Kind: "global"}
		if w, ok := why[v]; ok {
			si.Done, si.Why = true, "modifiable after initialisation: "+w
			suspects[v] = name
		}
		*sites = append(*sites, si)
	}
	sort.Slice(*sites, func(i, j int) bool {
		a, b := (*sites)[i], (*sites)[j]
		if a.File != b.File {
			return a.File < b.File
		}
		return a.Line < b.Line
	})
	return gvars, suspects
}

// instrumentShared puts verifhook.Shared(name) before and after every statement (of a statement list) that mentions a
// modifiable package-level variable outside nested blocks.
func instrumentShared(p *packages.Package, f *ast.File, suspects map[*types.Var]string) bool {
	if len(suspects) == 0 {
		return false
	}
	changed := false
	mentions := func(s ast.Stmt) string {
		found := ""
		ast.Inspect(s, func(n ast.Node) bool {
			if found != "" {
				return false
			}
			if _, nested := n.(*ast.BlockStmt); nested && n != ast.Node(s) {
				return false
			}
			if _, lit := n.(*ast.FuncLit); lit {
				return false
			}
			if id, ok := n.(*ast.Ident); ok {
				if v, ok := p.TypesInfo.Uses[id].(*types.Var); ok {
					if name, sus := suspects[v]; sus {
						found = name
					}
				}
			}
			return true
		})
		return found
	}
	hook := func(name string) ast.Stmt {
		return &ast.ExprStmt{X: &ast.CallExpr{Fun: &ast.SelectorExpr{X: ast.NewIdent("verifhook"), Sel: ast.NewIdent("Shared")}, Args: []ast.Expr{&ast.BasicLit{Kind: token.STRING, Value: fmt.Sprintf("%q", name)}}}}
	}
	for _, d := range f.Decls {
		fd, ok := d.(*ast.FuncDecl)
		if !ok || fd.Body == nil || (fd.Recv == nil && fd.Name.Name == "init") {
			continue
		}
		astutil.Apply(fd.Body, nil, func(c *astutil.Cursor) bool {
			st, ok := c.Node().(ast.Stmt)
			if !ok || c.Index() < 0 {
				return true
			}
			if es, ok := st.(*ast.ExprStmt); ok {
				if call, ok := es.X.(*ast.CallExpr); ok {
					if sel, ok := call.Fun.(*ast.SelectorExpr); ok {
						if id, ok := sel.X.(*ast.Ident); ok && id.Name == "verifhook" && sel.Sel.Name == "Shared" {
							return true
						}
					}
				}
			}
			if _, blk := st.(*ast.BlockStmt); blk {
				return true
			}
			if name := mentions(st); name != "" {
				c.InsertBefore(hook(name))
				switch st.(type) {
				case *ast.ReturnStmt, *ast.BranchStmt:
				default:
					c.InsertAfter(hook(name))
				}
				changed = true
			}
			return true
		})
	}
	return changed
}
