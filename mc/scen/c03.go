package scen

import (
	"fmt"
	"sort"
	"strings"

	sdk "github.com/cosmos/cosmos-sdk/types"

	"verifmc/engine"
	"verifmc/hub"

	mhubtypes "github.com/MinterTeam/mhub2/module/x/mhub2/types"
)

// C03: external events are applied exactly once, in nonce order.
//
// Alphabet: Vote(validator, nonce, variant) for deposit events (nonces 1..N, two
// conflicting variants per nonce with amounts chosen so that every subset sum is
// unique), NextBlock. Validators may vote ahead, behind, conflicting, repeated.
type C03 struct {
	Vals    []hub.Validator
	Powers  []int64
	User    sdk.AccAddress
	Nonces  int
	Chain   string
	Leave   bool // alphabet includes a validator leaving (record removed by x/staking) and being created again
}

func NewC03(tier string) *C03 {
	c := &C03{Vals: []hub.Validator{hub.NewValidator("A"), hub.NewValidator("B"), hub.NewValidator("C")},
		Powers: []int64{10, 10, 10}, User: hub.User("u1"), Nonces: 3, Chain: "ethereum"}
	return c
}

func (c *C03) ID() string               { return "C03" }
func (c *C03) Setup(in *hub.Instance)   {}
func (c *C03) SeedPaths() [][]engine.Op { return [][]engine.Op{{}} }
func (c *C03) Genesis() hub.Genesis {
	return StdGenesis(c.Vals, c.Powers, []sdk.AccAddress{c.User}, nil)
}

// amount of (nonce, variant): distinct powers of 4 so that any multiset of applied
// events (including double application) is identifiable from the balance.
func c03Amount(nonce, variant int64) int64 {
	a := int64(1)
	for i := int64(0); i < (nonce-1)*2+variant; i++ {
		a *= 4
	}
	return a
}

func (c *C03) event(nonce, variant int64) *mhubtypes.SendToHubEvent {
	coin := EthHub
	switch c.Chain {
	case "minter":
		coin = "2012" // the default genesis lists hub on Minter as coin 2012
	case "bsc":
		coin = BscHub
	}
	return &mhubtypes.SendToHubEvent{
		EventNonce: uint64(nonce), ExternalCoinId: coin, Amount: sdk.NewInt(c03Amount(nonce, variant)),
		Sender: hub.HexAddr("depositor"), CosmosReceiver: c.User.String(), ExternalHeight: uint64(100 + nonce),
		TxHash: fmt.Sprintf("0xdep%d%d", nonce, variant),
	}
}

type c03Ghost struct {
	LastVoted []int64         // per validator: nonce of its last accepted vote (0 = none yet)
	Applied   []string        // "nonce/variant" in application order
	Accepted  map[string]bool // "nonce/variant" ever seen Accepted
}

func (g *c03Ghost) Clone() Ghost {
	n := &c03Ghost{LastVoted: append([]int64(nil), g.LastVoted...), Applied: append([]string(nil), g.Applied...), Accepted: map[string]bool{}}
	for k, v := range g.Accepted {
		n.Accepted[k] = v
	}
	return n
}

func (g *c03Ghost) Canon() string {
	var acc []string
	for k := range g.Accepted {
		acc = append(acc, k)
	}
	sort.Strings(acc)
	return fmt.Sprint(g.LastVoted, g.Applied, acc)
}

func (c *C03) NewGhost(in *hub.Instance) Ghost {
	return &c03Ghost{LastVoted: make([]int64, len(c.Vals)), Accepted: map[string]bool{}}
}

func (c *C03) Ops(s *HState) []engine.Op {
	ops := []engine.Op{engine.OpN("NextBlock")}
	for v := range c.Vals {
		for n := 1; n <= c.Nonces; n++ {
			for va := 0; va < 2; va++ {
				ops = append(ops, engine.OpN("Vote", v, n, va))
			}
		}
	}
	if c.Leave {
		// validator A registers new delegate keys (a new orchestrator account and external key) - it stays the same validator
		ops = append(ops, engine.OpN("Rekey", 0))
		// validator A (index 0) leaves for good / is created again by the same operator
		if !s.Snap.Staking[0].Removed {
			ops = append(ops, engine.OpN("Leave", 0))
		} else {
			ops = append(ops, engine.OpN("Return", 0))
		}
	}
	return ops
}

func (c *C03) Do(in *hub.Instance, gg Ghost, op engine.Op, st *engine.Step) {
	g := gg.(*c03Ghost)
	switch op.Kind {
	case "Rekey":
		v := c.Vals[op.I[0]]
		seq, _ := in.Acc.GetSequence(in.Ctx(), v.Acc)
		n := in.TxCount
		r := in.DeliverMsg(hub.DelegateKeysMsg(in.Cdc, v, c.Chain, hub.User(fmt.Sprintf("c03orch%d", n)), hub.EthKey(fmt.Sprintf("c03key%d", n)), seq))
		st.Obs = fmt.Sprint("rekey", r.OK())
	case "Leave":
		in.ValLeave(int(op.I[0]))
		st.Obs = "left"
	case "Return":
		in.ValReturn(int(op.I[0]), c.Powers[op.I[0]])
		st.Obs = "returned"
	case "Vote":
		v, n, va := op.I[0], op.I[1], op.I[2]
		r := in.DeliverMsg(hub.EventMsg(c.Vals[v].Orch, c.Chain, c.event(n, va)))
		if r.Panic != nil {
			st.Obs = "panic"
			return
		}
		if r.Err != nil {
			st.Obs = "rejected"
			st.Count("votes_rejected", 1)
			return
		}
		st.Obs = "accepted"
		st.Count("votes_accepted", 1)
		// per-validator contiguity: after its first claim every accepted claim is previous+1
		if g.LastVoted[v] != 0 && n != g.LastVoted[v]+1 {
			st.Violate("C03", "validator_claims_not_consecutive", "MsgSubmitExternalEvent",
				"validator %d: accepted claim nonce %d after last accepted nonce %d", v, n, g.LastVoted[v])
		}
		g.LastVoted[v] = n
	case "NextBlock":
		before := in.Hub.GetLastObservedEventNonce(in.Ctx(), mhubtypes.ChainID(c.Chain))
		if p := in.EndBlock(); BlockFailure(st, p) {
			return
		}
		c.afterTally(in, g, before, st)
		if p := in.BeginBlock(5); BlockFailure(st, p) {
			return
		}
	}
}

func (c *C03) afterTally(in *hub.Instance, g *c03Ghost, before uint64, st *engine.Step) {
	ctx := in.Ctx()
	after := in.Hub.GetLastObservedEventNonce(ctx, mhubtypes.ChainID(c.Chain))
	if after < before {
		st.Violate("C03", "observed_nonce_decreased", "EndBlocker", "%d -> %d", before, after)
	}
	// newly accepted records
	recs := in.Hub.GetExternalEventVoteRecordMapping(ctx, mhubtypes.ChainID(c.Chain))
	perNonce := map[uint64][]string{}
	var newly []string
	for nonce, list := range recs {
		for _, r := range list {
			if !r.Accepted {
				continue
			}
			ev, err := mhubtypes.UnpackEvent(r.Event)
			if err != nil {
				panic(err)
			}
			d := ev.(*mhubtypes.SendToHubEvent)
			variant := int64(0)
			if d.Amount.Int64() != c03Amount(int64(nonce), 0) {
				variant = 1
			}
			id := fmt.Sprintf("%d/%d", nonce, variant)
			perNonce[nonce] = append(perNonce[nonce], id)
			if !g.Accepted[id] {
				newly = append(newly, id)
				g.Accepted[id] = true
			}
		}
	}
	for n, ids := range perNonce {
		if len(ids) > 1 {
			st.Violate("C03", "two_claims_accepted_for_one_nonce", "EndBlocker", "nonce %d: %v", n, ids)
		}
	}
	for id := range g.Accepted {
		var n uint64
		fmt.Sscanf(id, "%d/", &n)
		found := false
		for _, x := range perNonce[n] {
			if x == id {
				found = true
			}
		}
		if !found {
			st.Violate("C03", "accepted_flag_lost", "EndBlocker", "%s no longer accepted", id)
		}
	}
	// newly accepted must be exactly nonces before+1..after, one each, in order
	sort.Slice(newly, func(i, j int) bool {
		var a, b uint64
		fmt.Sscanf(newly[i], "%d/", &a)
		fmt.Sscanf(newly[j], "%d/", &b)
		return a < b
	})
	want := before
	for _, id := range newly {
		var n uint64
		fmt.Sscanf(id, "%d/", &n)
		want++
		if n != want {
			st.Violate("C03", "applied_out_of_order", "EndBlocker", "newly accepted %v with last observed %d->%d", newly, before, after)
			break
		}
	}
	if uint64(len(newly)) != after-before && after >= before {
		st.Violate("C03", "nonce_advance_mismatch", "EndBlocker", "observed nonce %d->%d but newly accepted %v", before, after, newly)
	}
	g.Applied = append(g.Applied, newly...)
	st.Count("events_applied", len(newly))
	if len(newly) > 1 {
		st.Count("blocks_applying_several_nonces", 1)
	}
	// effects: balance == sum of applied deposits exactly once
	sum := int64(0)
	for _, id := range g.Applied {
		var n, va int64
		fmt.Sscanf(id, "%d/%d", &n, &va)
		sum += c03Amount(n, va)
	}
	bal := in.Bank.GetBalance(ctx, c.User, "hub").Amount
	if !bal.Equal(sdk.NewInt(sum)) {
		st.Violate("C03", "effects_not_exactly_once", "Handle(SendToHubEvent)", "balance %s but applied %s sums to %d", bal, strings.Join(g.Applied, ","), sum)
	}
	st.Obs = fmt.Sprintf("applied+%d", len(newly))
}
