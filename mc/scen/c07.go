package scen

import (
	"strings"
	"bytes"
	"crypto/ecdsa"
	"fmt"
	"math/big"
	"time"

	sdk "github.com/cosmos/cosmos-sdk/types"
	"github.com/ethereum/go-ethereum/common"
	"github.com/ethereum/go-ethereum/crypto"

	"verifmc/engine"
	"verifmc/evmhost"
	"verifmc/hub"

	mhubtypes "github.com/MinterTeam/mhub2/module/x/mhub2/types"
)

// ---------------------------------------------------------------------------------------------
// reference ABI encoder, written from the Solidity ABI specification (head/tail encoding); it
// shares no code with go-ethereum's accounts/abi, which the module uses.

type abiVal struct {
	typ string // bytes32 | uint256 | address | uint256[] | address[] | bytes
	v   interface{}
}

func word(b []byte) []byte { // left-pad to 32
	out := make([]byte, 32)
	copy(out[32-len(b):], b)
	return out
}

func refABIEncode(vals []abiVal) []byte {
	headSize := 32 * len(vals)
	var head, tail []byte
	for _, a := range vals {
		switch a.typ {
		case "bytes32":
			w := make([]byte, 32)
			copy(w, a.v.([]byte)) // bytesN are left-aligned
			head = append(head, w...)
		case "uint256":
			head = append(head, word(a.v.(*big.Int).Bytes())...)
		case "address":
			head = append(head, word(a.v.(common.Address).Bytes())...)
		case "uint256[]":
			head = append(head, word(big.NewInt(int64(headSize+len(tail))).Bytes())...)
			xs := a.v.([]*big.Int)
			tail = append(tail, word(big.NewInt(int64(len(xs))).Bytes())...)
			for _, x := range xs {
				tail = append(tail, word(x.Bytes())...)
			}
		case "address[]":
			head = append(head, word(big.NewInt(int64(headSize+len(tail))).Bytes())...)
			xs := a.v.([]common.Address)
			tail = append(tail, word(big.NewInt(int64(len(xs))).Bytes())...)
			for _, x := range xs {
				tail = append(tail, word(x.Bytes())...)
			}
		case "bytes":
			head = append(head, word(big.NewInt(int64(headSize+len(tail))).Bytes())...)
			bs := a.v.([]byte)
			tail = append(tail, word(big.NewInt(int64(len(bs))).Bytes())...)
			tail = append(tail, bs...)
			if pad := (32 - len(bs)%32) % 32; pad > 0 {
				tail = append(tail, make([]byte, pad)...)
			}
		default:
			panic("refABIEncode: " + a.typ)
		}
	}
	return append(head, tail...)
}

func name32(s string) []byte { b := make([]byte, 32); copy(b, s); return b }

func refSignerSetDigest(gid []byte, s *mhubtypes.SignerSetTx) []byte {
	var addrs []common.Address
	var pw []*big.Int
	for _, m := range s.Signers {
		addrs = append(addrs, common.HexToAddress(m.ExternalAddress))
		pw = append(pw, new(big.Int).SetUint64(m.Power))
	}
	return crypto.Keccak256(refABIEncode([]abiVal{{"bytes32", gid}, {"bytes32", name32("checkpoint")}, {"uint256", new(big.Int).SetUint64(s.Nonce)}, {"address[]", addrs}, {"uint256[]", pw}}))
}

func refBatchDigest(gid []byte, b *mhubtypes.BatchTx) []byte {
	var am, fe []*big.Int
	var de []common.Address
	for _, t := range b.Transactions {
		am = append(am, t.Token.Amount.BigInt())
		fe = append(fe, t.Fee.Amount.BigInt())
		de = append(de, common.HexToAddress(t.ExternalRecipient))
	}
	return crypto.Keccak256(refABIEncode([]abiVal{{"bytes32", gid}, {"bytes32", name32("transactionBatch")}, {"uint256[]", am}, {"address[]", de}, {"uint256[]", fe},
		{"uint256", new(big.Int).SetUint64(b.BatchNonce)}, {"address", common.HexToAddress(b.ExternalTokenId)}, {"uint256", new(big.Int).SetUint64(b.Timeout)}}))
}

// ckpt calls a GetCheckpoint and turns a panic into a finding (no digest is no agreement with the contract).
func ckpt(out *c07Out, what string, f func() []byte) (d []byte) {
	defer func() {
		if r := recover(); r != nil {
			out.bad("checkpoint_panicked", what, "%v", r)
			d = nil
		}
	}()
	d = f()
	// a digest stays what it is while the caller holds it: other digests are computed in between (a validator collects the
	// digests of everything pending before it signs, queries compute digests concurrently) - the value is compared afterwards
	gid := []byte("decoy-gravity-id")
	_ = (&mhubtypes.SignerSetTx{Nonce: 77, Signers: mhubtypes.ExternalSigners{{Power: 5, ExternalAddress: EthHub}}}).GetCheckpoint(gid)
	_ = (&mhubtypes.BatchTx{BatchNonce: 78, ExternalTokenId: EthHub, Timeout: 9}).GetCheckpoint(gid)
	_ = (&mhubtypes.ContractCallTx{InvalidationNonce: 79, InvalidationScope: []byte("decoy"), Address: EthHub, Payload: []byte("p"), Timeout: 3}).GetCheckpoint(gid)
	return d
}

func refCallDigest(gid []byte, c *mhubtypes.ContractCallTx) []byte {
	var ta, fa []*big.Int
	var tc, fc []common.Address
	for _, t := range c.Tokens {
		ta = append(ta, t.Amount.BigInt())
		tc = append(tc, common.HexToAddress(t.ExternalTokenId))
	}
	for _, t := range c.Fees {
		fa = append(fa, t.Amount.BigInt())
		fc = append(fc, common.HexToAddress(t.ExternalTokenId))
	}
	return crypto.Keccak256(refABIEncode([]abiVal{{"bytes32", gid}, {"bytes32", name32("logicCall")}, {"uint256[]", ta}, {"address[]", tc}, {"uint256[]", fa}, {"address[]", fc},
		{"address", common.HexToAddress(c.Address)}, {"bytes", []byte(c.Payload)}, {"uint256", new(big.Int).SetUint64(c.Timeout)}, {"bytes32", []byte(c.InvalidationScope)}, {"uint256", new(big.Int).SetUint64(c.InvalidationNonce)}}))
}

// ---------------------------------------------------------------------------------------------

type c07Out struct {
	evals, distinct int
	viol            []engine.Violation
	samples         []interface{}
	evm             map[string]int
}

func (o *c07Out) bad(rule, site, f string, a ...interface{}) {
	o.viol = append(o.viol, engine.Violation{Property: "C07", Rule: rule, Site: site, Detail: fmt.Sprintf(f, a...)})
}

func c07Keys(n int) []*ecdsa.PrivateKey {
	var ks []*ecdsa.PrivateKey
	for i := 0; i < n; i++ {
		ks = append(ks, hub.EthKey(fmt.Sprintf("c07-%d", i)))
	}
	return ks
}

func vrs(sig []byte) (uint8, [32]byte, [32]byte) {
	var r, s [32]byte
	copy(r[:], sig[:32])
	copy(s[:], sig[32:64])
	return sig[64] + 27, r, s
}

func c07Run(tier string) *c07Out {
	out := &c07Out{evm: map[string]int{}}
	keys := c07Keys(4)
	addr := func(i int) string { return crypto.PubkeyToAddress(keys[i].PublicKey).Hex() }
	gids := [][]byte{{}, []byte("g"), bytes.Repeat([]byte("a"), 16), bytes.Repeat([]byte("b"), 31), bytes.Repeat([]byte("c"), 32)}
	nonces := []uint64{0, 1, 1 << 32, 1<<63 - 1, 1 << 63, 1<<64 - 1}
	powers := []uint64{0, 1, 1<<32 - 1}
	max := new(big.Int).Sub(new(big.Int).Lsh(big.NewInt(1), 256), big.NewInt(1))
	amts := []*big.Int{big.NewInt(0), big.NewInt(1), new(big.Int).Lsh(big.NewInt(1), 255), max}

	// ---- (1) digest == keccak(reference ABI encoding), all shapes
	var memberLists [][]*mhubtypes.ExternalSigner
	memberLists = append(memberLists, nil)
	for n := 1; n <= 4; n++ {
		// all power assignments over the 3-value alphabet for n<=3, a representative subset for n=4
		total := 1
		for i := 0; i < n; i++ {
			total *= 3
		}
		for code := 0; code < total; code++ {
			if n == 4 && code%7 != 0 {
				continue
			}
			var l []*mhubtypes.ExternalSigner
			c := code
			for i := 0; i < n; i++ {
				l = append(l, &mhubtypes.ExternalSigner{Power: powers[c%3], ExternalAddress: addr(i)})
				c /= 3
			}
			memberLists = append(memberLists, l)
		}
	}
	// powers at and above 2^63 (the contract's uint256 knows no sign)
	for _, pw := range []uint64{1<<63 - 1, 1 << 63, 1<<64 - 1} {
		memberLists = append(memberLists, []*mhubtypes.ExternalSigner{{Power: pw, ExternalAddress: addr(0)}},
			[]*mhubtypes.ExternalSigner{{Power: 1, ExternalAddress: addr(0)}, {Power: pw, ExternalAddress: addr(1)}})
	}
	for _, gid := range gids {
		for _, n := range nonces {
			for _, ml := range memberLists {
				s := &mhubtypes.SignerSetTx{Nonce: n, Signers: ml}
				got := ckpt(out, "SignerSetTx.GetCheckpoint", func() []byte { return s.GetCheckpoint(gid) })
				want := refSignerSetDigest(gid, s)
				out.evals++
				if !bytes.Equal(got, want) {
					out.bad("checkpoint_differs_from_abi_spec", "SignerSetTx.GetCheckpoint", "gid %q nonce %d members %d: %x != %x", gid, n, len(ml), got, want)
				}
			}
		}
	}
	out.samples = append(out.samples, map[string]interface{}{"kind": "signer set", "gravity_id_len": 31, "nonce": uint64(1 << 32), "members": 3})
	sizes := []int{0, 1, 2, 3, 100}
	for _, gid := range gids {
		for _, n := range nonces {
			for _, to := range nonces {
				for _, sz := range sizes {
					for ai := range amts {
						var txs []*mhubtypes.SendToExternal
						for i := 0; i < sz; i++ {
							txs = append(txs, &mhubtypes.SendToExternal{Id: uint64(i), ExternalRecipient: addr(i % 4),
								Token: mhubtypes.ExternalToken{Amount: sdk.NewIntFromBigInt(amts[(ai+i)%4])}, Fee: mhubtypes.ExternalToken{Amount: sdk.NewIntFromBigInt(amts[(ai+2*i+1)%4])}})
						}
						b := &mhubtypes.BatchTx{BatchNonce: n, Timeout: to, Transactions: txs, ExternalTokenId: addr(3)}
						got := ckpt(out, "BatchTx.GetCheckpoint", func() []byte { return b.GetCheckpoint(gid) })
						want := refBatchDigest(gid, b)
						out.evals++
						if !bytes.Equal(got, want) {
							out.bad("checkpoint_differs_from_abi_spec", "BatchTx.GetCheckpoint", "gid %q nonce %d timeout %d size %d: %x != %x", gid, n, to, sz, got, want)
						}
					}
				}
			}
		}
	}
	out.samples = append(out.samples, map[string]interface{}{"kind": "batch", "transfers": 100, "amounts": "0,1,2^255,2^256-1 rotated"})
	payloadLens := []int{0, 1, 31, 32, 33, 64}
	scopes := [][]byte{{}, []byte("s"), bytes.Repeat([]byte("z"), 32)}
	for _, gid := range gids {
		for _, pl := range payloadLens {
			for _, sc := range scopes {
				for nt := 0; nt <= 2; nt++ {
					for nf := 0; nf <= 2; nf++ {
						for _, n := range []uint64{0, 1, 1<<63 - 1, 1 << 63, 1<<64 - 1} {
							var toks, fees []mhubtypes.ExternalToken
							for i := 0; i < nt; i++ {
								toks = append(toks, mhubtypes.ExternalToken{Amount: sdk.NewIntFromBigInt(amts[(i+1)%4]), ExternalTokenId: addr(i)})
							}
							for i := 0; i < nf; i++ {
								fees = append(fees, mhubtypes.ExternalToken{Amount: sdk.NewIntFromBigInt(amts[(i+3)%4]), ExternalTokenId: addr(i + 1)})
							}
							c := &mhubtypes.ContractCallTx{InvalidationNonce: n, InvalidationScope: sc, Address: addr(2), Payload: bytes.Repeat([]byte{0xab}, pl), Timeout: n, Tokens: toks, Fees: fees}
							got := ckpt(out, "ContractCallTx.GetCheckpoint", func() []byte { return c.GetCheckpoint(gid) })
							want := refCallDigest(gid, c)
							out.evals++
							if !bytes.Equal(got, want) {
								out.bad("checkpoint_differs_from_abi_spec", "ContractCallTx.GetCheckpoint", "gid %q payload %d scope %d tokens %d fees %d: %x != %x", gid, pl, len(sc), nt, nf, got, want)
							}
						}
					}
				}
			}
		}
	}
	out.samples = append(out.samples, map[string]interface{}{"kind": "contract call", "payload_len": 33, "scope_len": 32, "tokens": 2, "fees": 1})

	// ---- (1b) every spelling of an address the hub admits (common.IsHexAddress: 0x.. / 0X.. / no prefix, any letter case)
	// is the same 20 bytes to the contract: members, recipients, token contracts and logic-call targets
	spell := func(a string, k int) string {
		switch k {
		case 1:
			return "0X" + a[2:]
		case 2:
			return a[2:]
		case 3:
			return "0x" + strings.ToUpper(a[2:])
		case 4:
			return strings.ToLower(a)
		}
		return a
	}
	for k := 1; k <= 4; k++ {
		gid := gids[2]
		ss := &mhubtypes.SignerSetTx{Nonce: 3, Signers: []*mhubtypes.ExternalSigner{{Power: 1 << 31, ExternalAddress: spell(addr(0), k)}, {Power: 1 << 30, ExternalAddress: addr(1)}}}
		if got, want := ckpt(out, "SignerSetTx.GetCheckpoint", func() []byte { return ss.GetCheckpoint(gid) }), refSignerSetDigest(gid, ss); !bytes.Equal(got, want) {
			out.bad("checkpoint_differs_from_abi_spec", "SignerSetTx.GetCheckpoint", "member spelled %q: %x != %x", spell(addr(0), k), got, want)
		}
		for _, which := range []string{"recipient", "token"} {
			b := &mhubtypes.BatchTx{BatchNonce: 2, Timeout: 900, ExternalTokenId: addr(3), Transactions: []*mhubtypes.SendToExternal{
				{Id: 1, ExternalRecipient: addr(1), Token: mhubtypes.ExternalToken{Amount: sdk.NewInt(7)}, Fee: mhubtypes.ExternalToken{Amount: sdk.NewInt(1)}},
				{Id: 2, ExternalRecipient: addr(2), Token: mhubtypes.ExternalToken{Amount: sdk.NewInt(9)}, Fee: mhubtypes.ExternalToken{Amount: sdk.NewInt(2)}}}}
			if which == "recipient" {
				b.Transactions[1].ExternalRecipient = spell(addr(2), k)
			} else {
				b.ExternalTokenId = spell(addr(3), k)
			}
			out.evals++
			if got, want := ckpt(out, "BatchTx.GetCheckpoint", func() []byte { return b.GetCheckpoint(gid) }), refBatchDigest(gid, b); !bytes.Equal(got, want) {
				out.bad("checkpoint_differs_from_abi_spec", "BatchTx.GetCheckpoint", "%s spelled %q: %x != %x", which, spell(addr(2), k), got, want)
			}
		}
		cc := &mhubtypes.ContractCallTx{InvalidationNonce: 1, InvalidationScope: []byte("s"), Address: spell(addr(2), k), Payload: []byte{1, 2, 3}, Timeout: 50,
			Tokens: []mhubtypes.ExternalToken{{Amount: sdk.NewInt(5), ExternalTokenId: spell(addr(1), k)}}, Fees: []mhubtypes.ExternalToken{{Amount: sdk.NewInt(2), ExternalTokenId: spell(addr(3), k)}}}
		out.evals += 2
		if got, want := ckpt(out, "ContractCallTx.GetCheckpoint", func() []byte { return cc.GetCheckpoint(gid) }), refCallDigest(gid, cc); !bytes.Equal(got, want) {
			out.bad("checkpoint_differs_from_abi_spec", "ContractCallTx.GetCheckpoint", "addresses spelled like %q: %x != %x", spell(addr(2), k), got, want)
		}
	}
	out.samples = append(out.samples, map[string]interface{}{"kind": "address spellings", "spellings": []string{"0X..", "no prefix", "upper-case digits", "lower case"}})

	// ---- (3) signature scheme: ValidateEthereumSignature accepts exactly (digest, addr(key)), both v conventions
	digs := [][]byte{crypto.Keccak256([]byte("d0")), crypto.Keccak256([]byte("d1")), make([]byte, 32), bytes.Repeat([]byte{0xff}, 32)}
	for ki, k := range keys {
		for di, d := range digs {
			sig, err := mhubtypes.NewEthereumSignature(d, k)
			if err != nil {
				out.bad("cannot_sign", "NewEthereumSignature", "%v", err)
				continue
			}
			for _, conv := range []byte{0, 27} {
				s2 := append([]byte{}, sig...)
				s2[64] += conv
				for kj := range keys {
					for dj, d2 := range digs {
						err := mhubtypes.ValidateEthereumSignature(d2, s2, crypto.PubkeyToAddress(keys[kj].PublicKey))
						out.evals++
						should := kj == ki && dj == di
						if should != (err == nil) {
							out.bad("signature_validation_wrong", "ValidateEthereumSignature", "sig by key %d over digest %d (v+%d) checked against key %d digest %d: err=%v", ki, di, conv, kj, dj, err)
						}
					}
				}
			}
		}
	}
	out.samples = append(out.samples, map[string]interface{}{"kind": "signature grid", "keys": 4, "digests": 4, "v_conventions": []int{0, 27}})
	// the recovery byte: the contract's ecrecover knows 27 / 28 only (the relayers add 27 to the hub's 0 / 1); the hub
	// accepts a signature under exactly those four spellings of the right recovery id - every value of the byte is tried
	for ki, k := range keys[:2] {
		d := digs[ki]
		sig, err := mhubtypes.NewEthereumSignature(d, k)
		if err != nil {
			continue
		}
		rec := sig[64]
		for v := 0; v < 256; v++ {
			s2 := append([]byte{}, sig...)
			s2[64] = byte(v)
			err := mhubtypes.ValidateEthereumSignature(d, s2, crypto.PubkeyToAddress(k.PublicKey))
			out.evals++
			should := byte(v) == rec || byte(v) == rec+27
			if should != (err == nil) {
				out.bad("signature_validation_wrong", "ValidateEthereumSignature(recovery byte)", "sig by key %d with recovery id %d presented with v=%d: err=%v (the contract recovers a signer for v=27/28 only)", ki, rec, v, err)
			}
		}
	}
	out.samples = append(out.samples, map[string]interface{}{"kind": "recovery byte sweep", "keys": 2, "values": 256})

	// ---- (2) the real Hub2 bytecode accepts what the hub asks validators to sign, and nothing else
	c07EVM(out, keys, gids, tier)
	out.distinct = out.evals
	return out
}

func c07EVM(out *c07Out, keys []*ecdsa.PrivateKey, gids [][]byte, tier string) {
	threshold := big.NewInt(2863311530)
	type set struct {
		idx []int
		pw  []uint64
	}
	sets := []set{{[]int{0}, []uint64{4294967295}}, {[]int{0, 1}, []uint64{2147483648, 2147483647}}, {[]int{0, 1, 2}, []uint64{1431655765, 1431655765, 1431655765}},
		{[]int{0, 1, 2, 3}, []uint64{2000000000, 1000000000, 1000000000, 294967295}}}
	mk := func(s set) (addrs []common.Address, pws []*big.Int, members []*mhubtypes.ExternalSigner) {
		for i, k := range s.idx {
			a := crypto.PubkeyToAddress(keys[k].PublicKey)
			addrs = append(addrs, a)
			pws = append(pws, new(big.Int).SetUint64(s.pw[i]))
			members = append(members, &mhubtypes.ExternalSigner{Power: s.pw[i], ExternalAddress: a.Hex()})
		}
		return
	}
	signAll := func(s set, digest []byte, tamper func(i int, sig []byte) []byte) (vs []uint8, rs, ss [][32]byte) {
		for i, k := range s.idx {
			sig, _ := mhubtypes.NewEthereumSignature(digest, keys[k])
			if tamper != nil {
				sig = tamper(i, sig)
			}
			v, r, sx := vrs(sig)
			vs, rs, ss = append(vs, v), append(rs, r), append(ss, sx)
		}
		return
	}
	flip := func(d []byte) []byte { x := append([]byte{}, d...); x[7] ^= 1; return x }
	for gi, gid := range gids {
		if tier != "thorough" && gi%2 == 1 {
			continue
		}
		var gid32 [32]byte
		copy(gid32[:], gid)
		for si, cur := range sets {
			addrs, pws, _ := mk(cur)
			h0, err := evmhost.New(gid32, threshold, addrs, pws)
			if err != nil {
				out.bad("evm_setup_failed", "evmhost", "%v", err)
				return
			}
			if err := h0.Fund(big.NewInt(1_000_000)); err != nil {
				out.bad("evm_setup_failed", "evmhost.Fund", "%v", err)
				return
			}
			// --- signer set update to every other set
			for ni, nxt := range sets {
				if ni == si {
					continue
				}
				for _, vn := range []uint64{5, 1 << 63} { // the contract's nonce is a uint256: 2^63 is an ordinary value
					naddrs, npws, nmembers := mk(nxt)
					tx := &mhubtypes.SignerSetTx{Nonce: vn, Signers: nmembers}
					digest := ckpt(out, "SignerSetTx.GetCheckpoint", func() []byte { return tx.GetCheckpoint(gid) })
					call := func(h *evmhost.Host, dig []byte, tamper func(int, []byte) []byte, nonce uint64) error {
						v, r, s := signAll(cur, dig, tamper)
						_, err := h.Call("updateValset", naddrs, npws, new(big.Int).SetUint64(nonce), addrs, pws, big.NewInt(0), v, r, s)
						return err
					}
					out.evals += 4
					out.evm["updateValset"]++
					if err := call(h0.Copy(), digest, nil, vn); err != nil {
						out.bad("contract_rejects_hub_digest", "SignerSetTx.GetCheckpoint vs Hub2.updateValset", "gid %q set %d->%d nonce %d: %v", gid, si, ni, vn, err)
					}
					if err := call(h0.Copy(), flip(digest), nil, vn); err == nil {
						out.bad("contract_accepts_other_digest", "Hub2.updateValset", "gid %q set %d->%d accepted signatures over a different digest", gid, si, ni)
					}
					if err := call(h0.Copy(), digest, nil, vn+1); err == nil {
						out.bad("contract_accepts_other_data", "Hub2.updateValset", "gid %q set %d->%d accepted the next nonce with signatures over this one", gid, si, ni)
					}
					wrongKey := func(i int, sig []byte) []byte {
						s2, _ := mhubtypes.NewEthereumSignature(digest, hub.EthKey("intruder"))
						return s2
					}
					if err := call(h0.Copy(), digest, wrongKey, vn); err == nil {
						out.bad("contract_accepts_other_signer", "Hub2.updateValset", "gid %q set %d->%d accepted signatures by a foreign key", gid, si, ni)
					}
				}
			}
			// --- batches of 0..3 transfers
			for bi, sz := range []int{0, 1, 3, 1} {
				bn, bto := uint64(3), uint64(1000)
				if bi == 3 {
					bn, bto = 1<<63, 1<<63+5 // nonce and timeout above the int64 range
				}
				var txs []*mhubtypes.SendToExternal
				var am, fe []*big.Int
				var de []common.Address
				for i := 0; i < sz; i++ {
					d := common.BytesToAddress(hub.Addr20(fmt.Sprintf("dest%d", i)))
					txs = append(txs, &mhubtypes.SendToExternal{ExternalRecipient: d.Hex(), Token: mhubtypes.ExternalToken{Amount: sdk.NewInt(int64(10 + i))}, Fee: mhubtypes.ExternalToken{Amount: sdk.NewInt(int64(i))}})
					am, fe, de = append(am, big.NewInt(int64(10+i))), append(fe, big.NewInt(int64(i))), append(de, d)
				}
				b := &mhubtypes.BatchTx{BatchNonce: bn, Timeout: bto, Transactions: txs, ExternalTokenId: h0.Token.Hex()}
				digest := ckpt(out, "BatchTx.GetCheckpoint", func() []byte { return b.GetCheckpoint(gid) })
				call := func(h *evmhost.Host, dig []byte, nonce uint64) error {
					v, r, s := signAll(cur, dig, nil)
					_, err := h.Call("submitBatch", addrs, pws, big.NewInt(0), v, r, s, am, de, fe, new(big.Int).SetUint64(nonce), h.Token, new(big.Int).SetUint64(bto))
					return err
				}
				out.evals += 3
				out.evm["submitBatch"]++
				hc := h0.Copy()
				if err := call(hc, digest, bn); err != nil {
					out.bad("contract_rejects_hub_digest", "BatchTx.GetCheckpoint vs Hub2.submitBatch", "gid %q set %d size %d nonce %d: %v", gid, si, sz, bn, err)
				} else {
					for i := 0; i < sz; i++ {
						if hc.TokenBalance(de[i]).Cmp(am[i]) != 0 {
							out.bad("batch_payout_wrong", "Hub2.submitBatch", "destination %d got %s want %s", i, hc.TokenBalance(de[i]), am[i])
						}
					}
				}
				if err := call(h0.Copy(), flip(digest), bn); err == nil {
					out.bad("contract_accepts_other_digest", "Hub2.submitBatch", "gid %q set %d size %d", gid, si, sz)
				}
				if err := call(h0.Copy(), digest, bn+1); err == nil {
					out.bad("contract_accepts_other_data", "Hub2.submitBatch", "gid %q set %d size %d: the next nonce with signatures over this one", gid, si, sz)
				}
			}
			// --- logic calls with payloads around the 32-byte boundary
			for _, pl := range []int{0, 1, 32, 33} {
				scope := []byte("scope")
				c := &mhubtypes.ContractCallTx{InvalidationNonce: 1, InvalidationScope: scope, Address: h0.Token.Hex(), Payload: bytes.Repeat([]byte{0xab}, pl), Timeout: 1000,
					Tokens: []mhubtypes.ExternalToken{{Amount: sdk.NewInt(5), ExternalTokenId: h0.Token.Hex()}}, Fees: []mhubtypes.ExternalToken{{Amount: sdk.NewInt(2), ExternalTokenId: h0.Token.Hex()}}}
				digest := ckpt(out, "ContractCallTx.GetCheckpoint", func() []byte { return c.GetCheckpoint(gid) })
				var inval [32]byte
				copy(inval[:], scope)
				type logicArgs struct {
					TransferAmounts        []*big.Int
					TransferTokenContracts []common.Address
					FeeAmounts             []*big.Int
					FeeTokenContracts      []common.Address
					LogicContractAddress   common.Address
					Payload                []byte
					TimeOut                *big.Int
					InvalidationId         [32]byte
					InvalidationNonce      *big.Int
				}
				call := func(h *evmhost.Host, dig []byte, payload []byte) error {
					v, r, s := signAll(cur, dig, nil)
					args := logicArgs{[]*big.Int{big.NewInt(5)}, []common.Address{h.Token}, []*big.Int{big.NewInt(2)}, []common.Address{h.Token}, h.Token, payload, big.NewInt(1000), inval, big.NewInt(1)}
					_, err := h.Call("submitLogicCall", addrs, pws, big.NewInt(0), v, r, s, args)
					return err
				}
				out.evals += 3
				out.evm["submitLogicCall"]++
				if err := call(h0.Copy(), digest, c.Payload); err != nil {
					out.bad("contract_rejects_hub_digest", "ContractCallTx.GetCheckpoint vs Hub2.submitLogicCall", "gid %q set %d payload %d: %v", gid, si, pl, err)
				}
				if err := call(h0.Copy(), flip(digest), c.Payload); err == nil {
					out.bad("contract_accepts_other_digest", "Hub2.submitLogicCall", "gid %q set %d payload %d", gid, si, pl)
				}
				if err := call(h0.Copy(), digest, append(append([]byte{}, c.Payload...), 0x00)); err == nil {
					out.bad("contract_accepts_other_data", "Hub2.submitLogicCall", "gid %q set %d payload %d+1 byte accepted", gid, si, pl)
				}
			}
		}
	}
}

func init() {
	Register("C07", func(tier string) *Runner {
		return &Runner{Run: func(o RunOpts) Output {
			start := time.Now()
			r := c07Run(o.Tier)
			out := Output{Known: map[string]*KnownOut{}}
			seen := map[string]bool{}
			for _, v := range r.viol {
				sig := v.Property + "|" + v.Signature()
				if o.Known[sig] {
					if out.Known[sig] == nil {
						out.Known[sig] = &KnownOut{Example: v.Detail}
					}
					out.Known[sig].Count++
				} else if !seen[sig] {
					seen[sig] = true
					out.Violations = append(out.Violations, engine.Found{Violation: v, Reproduced: 5})
				}
			}
			out.Evidence = map[string]interface{}{"level": "exploration", "coverage": map[string]interface{}{
				"evaluations": r.evals, "distinct_nontrivial": r.distinct,
				"rule":        "Cartesian grid of shapes: gravity id length {0,1,16,31,32}; nonces/timeouts {0,1,2^32,2^63-1}; member lists of 0..4 members over powers {0,1,2^32-1} (all assignments up to 3 members); batches of {0,1,2,3,100} transfers with amounts/fees {0,1,2^255,2^256-1}; contract calls with payload length {0,1,31,32,33,64}, 0..2 tokens/fees, scope length {0,1,32}. Each shape: GetCheckpoint == keccak(independent ABI encoding), compared after three other digests have been computed (a digest handed out stays what it is). Signature grid 4 keys x 4 digests x 2 v-conventions against all (key,digest); all 256 values of the recovery byte for 2 keys. EVM: real Hub2 bytecode accepts validator signatures over the hub digest for updateValset/submitBatch/submitLogicCall and reverts for a flipped digest bit, changed data, foreign key. Every evaluation is a distinct tuple.",
				"samples":     r.samples, "evm_calls": r.evm, "exhaustive": true,
			}, "assumptions": []string{"Hub2 bytecode = module/solidity/Hub2.go (Hub2MetaData.Bin); no solc in the sandbox to recompile Hub2.sol", "uint64 fields >= 2^63 are unreachable counters and excluded", "'for no other address or digest' is decided over the finite key/digest grid"}}
			out.Summary = fmt.Sprintf("evaluations=%d evm=%v violations=%d (%s)", r.evals, r.evm, len(out.Violations), time.Since(start).Round(time.Millisecond))
			return out
		}}
	})
}
