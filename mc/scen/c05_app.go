package scen

import (
	"encoding/hex"
	"fmt"
	"runtime"
	"sort"
	"strings"
	"sync"

	sdk "github.com/cosmos/cosmos-sdk/types"
	slashingtypes "github.com/cosmos/cosmos-sdk/x/slashing/types"
	stakingtypes "github.com/cosmos/cosmos-sdk/x/staking/types"
	abci "github.com/tendermint/tendermint/abci/types"

	mhubtypes "github.com/MinterTeam/mhub2/module/x/mhub2/types"
	"verifmc/apph"
	"verifmc/engine"
	"verifmc/hub"
)

// C05, second part: the application as app.go wires it (real x/staking, x/slashing, x/distribution, the staking
// hooks the bridge registers, the module order) driven through BeginBlock / message router / EndBlock / Commit.
// A state is the application hash after a block; the successor of a state is computed by replaying its shortest
// path on a fresh application and producing one more block. Every block of every path must complete, three more
// ordinary blocks must follow, and a state replayed must give the application hash it gave the first time.

// one letter = one block
var c05AppOps = []string{
	"Block",           // everybody signed, no messages
	"Absent2",         // validator 2's signature of the previous block is missing (x/slashing counts it; jailed after 3 of 4)
	"UndelegateAll1",  // validator 1's operator withdraws its whole self-delegation (the validator leaves the bonded set)
	"UndelegateHalf1", // ... half of it (the powers shift by more than 5%)
	"Delegate0",       // the user delegates to validator 0
	"Unjail2",         // validator 2 asks to be unjailed
	"Keys",            // validators 1 and 2 (the one that undelegates, the one that goes offline / double-signs) register their ethereum and minter keys
	"Send",            // the user sends 1000 hub to ethereum and asks for a batch
	"Deposit",         // every validator claims the next deposit event of ethereum (from its own account)
	"Claim1",          // validator 1 alone claims the next deposit event of ethereum: its vote waits for the others
	"DoubleSign2",     // the block carries evidence that validator 2 signed two blocks at the previous height (x/evidence: slashed, jailed, tombstoned)
}

type c05AppRun struct {
	Fail    *apph.Failure
	FailAt  int // index of the block that failed (len(path)+k for the k-th horizon block)
	Hashes  []string
	MsgOK   int
	MsgFail int
	Updates int
	Errs    map[string]bool
	Obs     *engine.Violation // what the observer reported
}

func c05AppMsgs(c *apph.Chain, op string, depNonce *uint64) []*apph.Msg {
	val := func(i int) hub.Validator {
		v := hub.NewValidator(fmt.Sprintf("app%d", i))
		v.Oper, v.Acc = sdk.ValAddress(c.Vals[i].Oper), c.Vals[i].Oper
		return v
	}
	bond := sdk.DefaultBondDenom
	switch op {
	case "UndelegateAll1":
		return []*apph.Msg{{M: stakingtypes.NewMsgUndelegate(c.Vals[1].Oper, sdk.ValAddress(c.Vals[1].Oper), sdk.NewCoin(bond, apph.BondAmt))}}
	case "UndelegateHalf1":
		return []*apph.Msg{{M: stakingtypes.NewMsgUndelegate(c.Vals[1].Oper, sdk.ValAddress(c.Vals[1].Oper), sdk.NewCoin(bond, apph.BondAmt.QuoRaw(2)))}}
	case "Delegate0":
		return []*apph.Msg{{M: stakingtypes.NewMsgDelegate(c.User, sdk.ValAddress(c.Vals[0].Oper), sdk.NewCoin(bond, apph.BondAmt))}}
	case "Unjail2":
		return []*apph.Msg{{M: slashingtypes.NewMsgUnjail(sdk.ValAddress(c.Vals[2].Oper))}}
	case "Keys":
		var l []*apph.Msg
		cdc := c.App.AppCodec()
		for i := 1; i < 3; i++ {
			for _, ch := range []string{"ethereum", "minter"} {
				v := val(i)
				l = append(l, &apph.Msg{M: hub.DelegateKeysMsg(cdc, v, ch, v.Acc, v.EthKey, 0)})
			}
		}
		return l
	case "Send":
		return []*apph.Msg{{M: mhubtypes.NewMsgSendToExternal("ethereum", c.User, hub.HexAddr("app-rcpt"), sdk.NewInt64Coin("hub", 1000), sdk.NewInt64Coin("hub", 5))},
			{M: &mhubtypes.MsgRequestBatchTx{ChainId: "ethereum", Denom: "hub", Signer: c.User.String()}}}
	case "Claim1":
		ev := &mhubtypes.SendToHubEvent{EventNonce: *depNonce + 1, ExternalCoinId: EthHub, Amount: sdk.NewInt(500), Sender: hub.HexAddr("app-dep"), CosmosReceiver: c.User.String(),
			ExternalHeight: 1000 + *depNonce + 1, TxHash: fmt.Sprintf("0xappdep%d", *depNonce+1)}
		return []*apph.Msg{{M: hub.EventMsg(c.Vals[1].Oper, "ethereum", ev)}}
	case "Deposit":
		*depNonce++
		ev := &mhubtypes.SendToHubEvent{EventNonce: *depNonce, ExternalCoinId: EthHub, Amount: sdk.NewInt(500), Sender: hub.HexAddr("app-dep"), CosmosReceiver: c.User.String(),
			ExternalHeight: 1000 + *depNonce, TxHash: fmt.Sprintf("0xappdep%d", *depNonce)}
		var l []*apph.Msg
		for i := range c.Vals {
			l = append(l, &apph.Msg{M: hub.EventMsg(c.Vals[i].Oper, "ethereum", ev)})
		}
		return l
	}
	return nil
}

// appObserver looks at the application after every block of a path (op = the block's letter); a violation it returns
// ends the execution.
type appObserver func(c *apph.Chain, op string) *engine.Violation

// c05AppExec replays path on a fresh application, then produces `horizon` ordinary blocks.
func c05AppExec(path []int, horizon int) c05AppRun { return appExec(path, horizon, nil) }

func appExec(path []int, horizon int, mkObs func() appObserver) c05AppRun {
	c := apph.New(3)
	defer c.Close()
	r := c05AppRun{Errs: map[string]bool{}}
	var obs appObserver
	if mkObs != nil {
		obs = mkObs()
	}
	dep := uint64(0)
	all := []bool{true, true, true}
	for i, o := range path {
		op := c05AppOps[o]
		signed := all
		if op == "Absent2" {
			signed = []bool{true, true, false}
		}
		msgs := c05AppMsgs(c, op, &dep)
		if op == "DoubleSign2" && c.Height > 0 {
			c.NextEvidence = []abci.Evidence{{Type: abci.EvidenceType_DUPLICATE_VOTE, Validator: abci.Validator{Address: c.Vals[2].Cons, Power: 100}, Height: c.Height, Time: c.Time, TotalVotingPower: 300}}
		}
		if f := c.Block(signed, msgs); f != nil {
			r.Fail, r.FailAt = f, i
			return r
		}
		okAll := true
		for _, m := range msgs {
			if m.Err == "" {
				r.MsgOK++
			} else {
				r.MsgFail++
				okAll = false
				e := m.Err
				if len(e) > 60 {
					e = e[:60]
				}
				r.Errs[op+": "+e] = true
			}
		}
		if op == "Deposit" && !okAll {
			dep-- // the claim was not taken: the event is still the next one
		}
		r.Updates += len(c.LastUpdates)
		r.Hashes = append(r.Hashes, hex.EncodeToString(c.LastHash))
		if obs != nil {
			if v := obs(c, op); v != nil {
				r.Obs, r.FailAt = v, i
				return r
			}
		}
	}
	for k := 0; k < horizon; k++ {
		if f := c.Block(all, nil); f != nil {
			r.Fail, r.FailAt = f, len(path)+k
			return r
		}
		if obs != nil {
			if v := obs(c, "Block"); v != nil {
				r.Obs, r.FailAt = v, len(path)+k
				return r
			}
		}
	}
	return r
}

func c05AppPath(path []int) []engine.Op {
	var ops []engine.Op
	for _, o := range path {
		ops = append(ops, engine.OpN("App:"+c05AppOps[o]))
	}
	return ops
}

func c05AppViolation(path []int, r c05AppRun) *engine.Found {
	what := "the block"
	if r.FailAt >= len(path) {
		what = fmt.Sprintf("ordinary block %d after the path", r.FailAt-len(path)+1)
	} else {
		what = fmt.Sprintf("block %d (%s)", r.FailAt+1, c05AppOps[path[r.FailAt]])
	}
	stack := r.Fail.Stack
	// name the first frame of the repository under the panic
	site := r.Fail.Stage
	for _, ln := range strings.Split(stack, "\n") {
		ln = strings.TrimSpace(ln)
		i := strings.Index(ln, "/module/x/")
		if i < 0 {
			i = strings.Index(ln, "/module/app/")
		}
		if i < 0 || !strings.Contains(ln, ".go:") {
			continue
		}
		f := strings.Fields(ln[i+len("/module/"):])[0]
		if j := strings.LastIndex(f, ":"); j >= 0 {
			f = f[:j]
		}
		site = r.Fail.Stage + " " + f
		break
	}
	return &engine.Found{Violation: engine.Violation{Property: "C05", Rule: "application_block_panicked", Site: site,
		Detail: fmt.Sprintf("[the application as wired in app.go, real x/staking and x/slashing] %s: %s panicked: %s", what, r.Fail.Stage, r.Fail.Value)}, Path: c05AppPath(path), Reproduced: 1}
}

// c05AppSearch explores all paths up to depth over c05AppOps, merging states with equal application hash.
func c05AppSearch(tier string, workers int) (map[string]interface{}, *engine.Found) {
	return appSearch(tier, workers, nil)
}

func appSearch(tier string, workers int, mkObs func() appObserver) (map[string]interface{}, *engine.Found) {
	depth, horizon := 4, 3
	if tier == "thorough" {
		depth = 5
	}
	if workers <= 0 {
		workers = runtime.NumCPU()
	}
	type state struct {
		path []int
		hash string
	}
	frontier := []state{{nil, "genesis"}}
	seen := map[string]bool{"genesis": true}
	states, transitions, blocks := 1, 0, 0
	msgOK, msgFail, updates := 0, 0, 0
	errs := map[string]bool{}
	var levels []int
	var found *engine.Found
	for d := 0; d < depth && found == nil && len(frontier) > 0; d++ {
		type job struct{ s, o int }
		type res struct {
			job
			r c05AppRun
		}
		jobs := make(chan job, len(frontier)*len(c05AppOps))
		for si := range frontier {
			for o := range c05AppOps {
				jobs <- job{si, o}
			}
		}
		close(jobs)
		out := make([]res, 0, len(frontier)*len(c05AppOps))
		var mu sync.Mutex
		var wg sync.WaitGroup
		for w := 0; w < workers; w++ {
			wg.Add(1)
			go func() {
				defer wg.Done()
				for j := range jobs {
					p := append(append([]int{}, frontier[j.s].path...), j.o)
					r := appExec(p, horizon, mkObs)
					mu.Lock()
					out = append(out, res{j, r})
					mu.Unlock()
				}
			}()
		}
		wg.Wait()
		sort.Slice(out, func(i, j int) bool {
			if out[i].s != out[j].s {
				return out[i].s < out[j].s
			}
			return out[i].o < out[j].o
		})
		var next []state
		for _, x := range out {
			p := append(append([]int{}, frontier[x.s].path...), x.o)
			transitions++
			blocks += len(p) + horizon
			if x.r.Fail != nil {
				if found == nil {
					found = c05AppViolation(p, x.r)
				}
				continue
			}
			if x.r.Obs != nil {
				if found == nil {
					found = &engine.Found{Violation: *x.r.Obs, Path: c05AppPath(p), Reproduced: 1}
				}
				continue
			}
			msgOK, msgFail, updates = msgOK+x.r.MsgOK, msgFail+x.r.MsgFail, updates+x.r.Updates
			for e := range x.r.Errs {
				errs[e] = true
			}
			// the parent state replayed gives the hash it gave when it was first reached
			if len(p) > 1 && x.r.Hashes[len(p)-2] != frontier[x.s].hash && found == nil {
				found = &engine.Found{Violation: engine.Violation{Property: "C05", Rule: "application_hash_differs_between_replays", Site: "app",
					Detail: fmt.Sprintf("[the application as wired in app.go] the same %d blocks gave application hash %s the first time and %s when replayed: validators executing the same blocks disagree and consensus stops", len(p)-1, frontier[x.s].hash, x.r.Hashes[len(p)-2])},
					Path: c05AppPath(p[:len(p)-1]), Reproduced: 1}
			}
			h := x.r.Hashes[len(p)-1]
			if !seen[h] {
				seen[h] = true
				states++
				next = append(next, state{p, h})
			}
		}
		levels = append(levels, len(next))
		frontier = next
	}
	var el []string
	for e := range errs {
		el = append(el, e)
	}
	sort.Strings(el)
	cov := map[string]interface{}{
		"application_states": states, "application_transitions": transitions, "application_blocks_executed": blocks, "application_depth_bound": depth,
		"application_level_sizes": levels, "application_ops": c05AppOps, "application_messages_ok": msgOK, "application_messages_failed": msgFail,
		"application_validator_set_updates": updates, "application_message_errors_seen": el,
		"application_rule": "every transition replays the state's shortest path on a fresh app.NewMhub2App over an in-memory database and produces one more block through BeginBlock, the message router (each message on its own cache of the block state), EndBlock and Commit, then three ordinary blocks; states are merged by application hash; a replayed state must give the hash it gave the first time",
	}
	return cov, found
}

// c05AppReplay re-executes an "App:" path (used by the replay command).
func c05AppReplay(ops []engine.Op) []engine.Violation {
	var path []int
	for _, o := range ops {
		name := strings.TrimPrefix(o.Kind, "App:")
		idx := -1
		for i, n := range c05AppOps {
			if n == name {
				idx = i
			}
		}
		if idx < 0 {
			return []engine.Violation{{Property: "C05", Rule: "replay_unknown_op", Site: "app", Detail: o.Kind}}
		}
		path = append(path, idx)
	}
	r := c05AppExec(path, 3)
	if r.Fail != nil {
		return []engine.Violation{c05AppViolation(path, r).Violation}
	}
	return nil
}
