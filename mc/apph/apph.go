// Package apph drives the REAL application (app.NewMhub2App: the wiring of app.go - keepers, staking hooks, module
// order, the real x/staking, x/slashing, x/distribution) through its ABCI entry points over an in-memory database.
// The keeper-level instance of package hub models staking as a scripted table; this one answers what that model
// cannot: whether the application as wired keeps producing blocks when the validator set really changes.
package apph

import (
	"encoding/json"
	"fmt"
	"os"
	"runtime/debug"
	"time"

	codectypes "github.com/cosmos/cosmos-sdk/codec/types"
	"github.com/cosmos/cosmos-sdk/crypto/keys/ed25519"
	sdk "github.com/cosmos/cosmos-sdk/types"
	authtypes "github.com/cosmos/cosmos-sdk/x/auth/types"
	banktypes "github.com/cosmos/cosmos-sdk/x/bank/types"
	slashingtypes "github.com/cosmos/cosmos-sdk/x/slashing/types"
	stakingtypes "github.com/cosmos/cosmos-sdk/x/staking/types"
	abci "github.com/tendermint/tendermint/abci/types"
	"github.com/tendermint/tendermint/crypto/tmhash"
	"github.com/tendermint/tendermint/libs/log"
	tmproto "github.com/tendermint/tendermint/proto/tendermint/types"
	tmtypes "github.com/tendermint/tendermint/types"
	dbm "github.com/tendermint/tm-db"

	"github.com/MinterTeam/mhub2/module/app"
)

// Val is one genesis validator: operator account, consensus key.
type Val struct {
	Oper     sdk.AccAddress
	ConsPriv *ed25519.PrivKey
	Cons     sdk.ConsAddress
}

// Chain is one running application.
type Chain struct {
	App    *app.Mhub2
	Vals   []Val
	User   sdk.AccAddress
	Height int64
	Time   time.Time
	dir    string
	// of the last block: the application hash returned by Commit and the validator updates returned by EndBlock
	LastHash    []byte
	LastUpdates []abci.ValidatorUpdate
	// evidence of misbehaviour the next block carries (consumed by Block)
	NextEvidence []abci.Evidence
	// the consensus validator set per height (index of the genesis validator -> power), as Tendermint keeps it: the
	// updates EndBlock(h) returns take effect at h+2
	sets map[int64]map[int]int64
}

type emptyOpts struct{}

func (emptyOpts) Get(string) interface{} { return nil }

var BondAmt = sdk.TokensFromConsensusPower(100, sdk.DefaultPowerReduction)

func addr(seed string) []byte { return tmhash.SumTruncated([]byte(seed)) }

// New starts a chain of the real application with n bonded genesis validators (100 power each) and one funded user.
// x/slashing's window is 4 blocks (a validator missing more than half of them is jailed); x/staking's unbonding time is 10 s.
func New(n int) *Chain {
	dir, err := os.MkdirTemp("/dev/shm", "apph")
	if err != nil {
		dir, _ = os.MkdirTemp("", "apph")
	}
	enc := app.MakeEncodingConfig()
	a := app.NewMhub2App(log.NewNopLogger(), dbm.NewMemDB(), nil, true, map[int64]bool{}, dir, 0, enc, emptyOpts{})
	genesis := app.NewDefaultGenesisState()
	c := &Chain{App: a, Time: time.Date(2022, 1, 1, 0, 0, 0, 0, time.UTC), User: sdk.AccAddress(addr("apph-user")), dir: dir}
	var (
		accs     []authtypes.GenesisAccount
		balances []banktypes.Balance
		vals     []stakingtypes.Validator
		dels     []stakingtypes.Delegation
		infos    []slashingtypes.SigningInfo
		supply   = sdk.NewCoins()
	)
	fund := func(a sdk.AccAddress, coins sdk.Coins) {
		accs = append(accs, authtypes.NewBaseAccount(a, nil, 0, 0))
		balances = append(balances, banktypes.Balance{Address: a.String(), Coins: coins})
		supply = supply.Add(coins...)
	}
	for i := 0; i < n; i++ {
		v := Val{Oper: sdk.AccAddress(addr(fmt.Sprintf("apph-val-%d", i))), ConsPriv: ed25519.GenPrivKeyFromSecret([]byte(fmt.Sprintf("apph-cons-%d", i)))}
		v.Cons = sdk.ConsAddress(v.ConsPriv.PubKey().Address())
		c.Vals = append(c.Vals, v)
		fund(v.Oper, sdk.NewCoins(sdk.NewCoin(sdk.DefaultBondDenom, sdk.NewInt(1_000_000_000))))
		pk, err := codectypes.NewAnyWithValue(v.ConsPriv.PubKey())
		if err != nil {
			panic(err)
		}
		vals = append(vals, stakingtypes.Validator{OperatorAddress: sdk.ValAddress(v.Oper).String(), ConsensusPubkey: pk, Status: stakingtypes.Bonded, Tokens: BondAmt,
			DelegatorShares: BondAmt.ToDec(), UnbondingTime: time.Unix(0, 0).UTC(), Commission: stakingtypes.NewCommission(sdk.ZeroDec(), sdk.ZeroDec(), sdk.ZeroDec()), MinSelfDelegation: sdk.OneInt()})
		dels = append(dels, stakingtypes.NewDelegation(v.Oper, sdk.ValAddress(v.Oper), BondAmt.ToDec()))
		infos = append(infos, slashingtypes.SigningInfo{Address: v.Cons.String(), ValidatorSigningInfo: slashingtypes.NewValidatorSigningInfo(v.Cons, 0, 0, time.Unix(0, 0).UTC(), false, 0)})
	}
	fund(c.User, sdk.NewCoins(sdk.NewCoin(sdk.DefaultBondDenom, sdk.NewInt(1_000_000_000)), sdk.NewInt64Coin("hub", 1_000_000_000)))
	bonded := sdk.NewCoins(sdk.NewCoin(sdk.DefaultBondDenom, BondAmt.MulRaw(int64(n))))
	balances = append(balances, banktypes.Balance{Address: authtypes.NewModuleAddress(stakingtypes.BondedPoolName).String(), Coins: bonded})
	supply = supply.Add(bonded...)
	cdc := enc.Marshaler
	genesis[authtypes.ModuleName] = cdc.MustMarshalJSON(authtypes.NewGenesisState(authtypes.DefaultParams(), accs))
	genesis[banktypes.ModuleName] = cdc.MustMarshalJSON(banktypes.NewGenesisState(banktypes.DefaultGenesisState().Params, balances, supply, nil))
	stp := stakingtypes.DefaultParams()
	stp.UnbondingTime = 10 * time.Second // two blocks: a validator that withdrew everything is removed from x/staking within a short path
	genesis[stakingtypes.ModuleName] = cdc.MustMarshalJSON(stakingtypes.NewGenesisState(stp, vals, dels))
	sp := slashingtypes.DefaultParams()
	sp.SignedBlocksWindow = 4
	sp.DowntimeJailDuration = 10 * time.Second
	genesis[slashingtypes.ModuleName] = cdc.MustMarshalJSON(slashingtypes.NewGenesisState(sp, infos, nil))
	state, err := json.Marshal(genesis)
	if err != nil {
		panic(err)
	}
	a.InitChain(abci.RequestInitChain{Time: c.Time, ChainId: "apph",
		ConsensusParams: &abci.ConsensusParams{Block: &abci.BlockParams{MaxBytes: 200000, MaxGas: -1}, Evidence: &tmproto.EvidenceParams{MaxAgeNumBlocks: 302400, MaxAgeDuration: 504 * time.Hour, MaxBytes: 10000},
			Validator: &tmproto.ValidatorParams{PubKeyTypes: []string{tmtypes.ABCIPubKeyTypeEd25519}}},
		AppStateBytes: state})
	return c
}

// Close removes the scratch directory of the application.
func (c *Chain) Close() { os.RemoveAll(c.dir) }

// Failure: a panic in one of the ABCI entry points - the node would have stopped there, and so would every other node.
type Failure struct {
	Stage string
	Value string
	Stack string
}

// Msg is one message of the block with the outcome its handler had (run like a transaction: on a cache of the
// block's state, written only on success; a panic inside it is confined to it).
type Msg struct {
	M   sdk.Msg
	Err string
}

// Block produces one block: signed[i] says whether validator i signed the previous one; msgs are handled between
// BeginBlock and EndBlock through the application's message router.
func (c *Chain) Block(signed []bool, msgs []*Msg) (f *Failure) {
	c.Height++
	c.Time = c.Time.Add(5 * time.Second)
	header := tmproto.Header{ChainID: "apph", Height: c.Height, Time: c.Time, ProposerAddress: c.Vals[0].Cons}
	// the last commit is that of the previous block: signed by the set that was in force there
	var votes []abci.VoteInfo
	if c.sets == nil {
		g := map[int]int64{}
		for i := range c.Vals {
			g[i] = 100
		}
		c.sets = map[int64]map[int]int64{0: g, 1: g, 2: g}
	}
	for i, v := range c.Vals {
		if p, ok := c.sets[c.Height-1][i]; ok {
			votes = append(votes, abci.VoteInfo{Validator: abci.Validator{Address: v.Cons, Power: p}, SignedLastBlock: signed[i]})
		}
	}
	stage := "BeginBlock"
	defer func() {
		if r := recover(); r != nil {
			f = &Failure{Stage: stage, Value: fmt.Sprint(r), Stack: string(debug.Stack())}
		}
	}()
	ev := c.NextEvidence
	c.NextEvidence = nil
	c.App.BeginBlock(abci.RequestBeginBlock{Header: header, LastCommitInfo: abci.LastCommitInfo{Votes: votes}, ByzantineValidators: ev})
	ctx := c.App.BaseApp.NewContext(false, header)
	for _, m := range msgs {
		func() {
			defer func() {
				if r := recover(); r != nil {
					m.Err = fmt.Sprint("panic: ", r)
				}
			}()
			h := c.App.MsgServiceRouter().Handler(m.M)
			if h == nil {
				m.Err = "no handler"
				return
			}
			if err := m.M.ValidateBasic(); err != nil {
				m.Err = err.Error()
				return
			}
			cc, write := ctx.CacheContext()
			if _, err := h(cc, m.M); err != nil {
				m.Err = err.Error()
				return
			}
			write()
		}()
	}
	stage = "EndBlock"
	c.LastUpdates = c.App.EndBlock(abci.RequestEndBlock{Height: c.Height}).ValidatorUpdates
	base := c.sets[c.Height+1]
	if base == nil {
		base = c.sets[c.Height]
	}
	next := map[int]int64{}
	for i, p := range base {
		next[i] = p
	}
	for _, u := range c.LastUpdates {
		for i, v := range c.Vals {
			if string(u.PubKey.GetEd25519()) == string(v.ConsPriv.PubKey().Bytes()) {
				if u.Power == 0 {
					delete(next, i)
				} else {
					next[i] = u.Power
				}
			}
		}
	}
	if c.sets[c.Height+1] == nil {
		c.sets[c.Height+1] = base
	}
	c.sets[c.Height+2] = next
	stage = "Commit"
	c.LastHash = c.App.Commit().Data
	return nil
}

// ProtoMsg is what the generated request / response types implement.
type ProtoMsg interface {
	Marshal() ([]byte, error)
	Unmarshal([]byte) error
}

// Query asks the application's gRPC query router (state of the last committed block), e.g.
// "/mhub2.v1.Query/LatestSignerSetTx".
func (c *Chain) Query(path string, req, resp ProtoMsg) error {
	bz, err := req.Marshal()
	if err != nil {
		return err
	}
	r := c.App.Query(abci.RequestQuery{Path: path, Data: bz})
	if r.Code != 0 {
		return fmt.Errorf("query %s: code %d: %s", path, r.Code, r.Log)
	}
	return resp.Unmarshal(r.Value)
}

// StoreWalk iterates the committed state of one module store under a key prefix (read only).
func (c *Chain) StoreWalk(storeKey string, prefix []byte, f func(k, v []byte)) {
	ctx := c.App.BaseApp.NewContext(true, tmproto.Header{Height: c.Height})
	it := sdk.KVStorePrefixIterator(ctx.KVStore(c.App.GetKey(storeKey)), prefix)
	defer it.Close()
	for ; it.Valid(); it.Next() {
		f(append([]byte{}, it.Key()...), append([]byte{}, it.Value()...))
	}
}
