//go:build c06

package scen

import (
	"os"
	"crypto/sha256"
	"fmt"
	"regexp"
	"runtime"
	"strconv"
	"strings"
	"sync"
	"time"

	sdk "github.com/cosmos/cosmos-sdk/types"

	"verifmc/engine"
	"verifmc/hub"

	mhubtypes "github.com/MinterTeam/mhub2/module/x/mhub2/types"
	oracletypes "github.com/MinterTeam/mhub2/module/x/oracle/types"
	"github.com/MinterTeam/mhub2/module/x/verifhook"
)

// C06: the state machine is deterministic. This file is only built with the map-order overlay
// (tools/maprw): every `range` over a map in x/mhub2 and x/oracle asks verifhook.Choose for its
// iteration order. For every transition of the BFS, the transition is re-executed from the same
// pre-state under every alternative order at every choice point (deviation bound 1 quick, 2
// thorough); the resulting stores and the ordered ABCI event list must be byte-identical.

type c06Point struct {
	Site string
	N    int
}

type c06Chooser struct {
	plan map[int][]int
	log  []c06Point
}

var c06Choosers sync.Map // goroutine id -> *c06Chooser

var c06gidRe = regexp.MustCompile(`^goroutine (\d+) `)

func c06gid() int64 {
	var buf [64]byte
	n := runtime.Stack(buf[:], false)
	m := c06gidRe.FindSubmatch(buf[:n])
	id, _ := strconv.ParseInt(string(m[1]), 10, 64)
	return id
}

func init() {
	sdk.VerifOrder = verifhook.Order // the map ranges rewritten inside cosmos-sdk/types (typed events) ask the same explorer
	verifhook.Choose = func(site string, n int) []int {
		v, ok := c06Choosers.Load(c06gid())
		if !ok {
			return nil
		}
		c := v.(*c06Chooser)
		i := len(c.log)
		c.log = append(c.log, c06Point{site, n})
		return c.plan[i]
	}
}

// alternatives: all non-identity permutations for n <= 4, else reverse, rotations, adjacent swaps
func c06Alts(n int) [][]int {
	if n < 2 {
		return nil
	}
	var out [][]int
	if n <= 4 {
		for _, p := range permutations(n) {
			id := true
			for i, x := range p {
				if i != x {
					id = false
				}
			}
			if !id {
				out = append(out, p)
			}
		}
		return out
	}
	rev := make([]int, n)
	for i := range rev {
		rev[i] = n - 1 - i
	}
	out = append(out, rev)
	for r := 1; r < n; r++ {
		p := make([]int, n)
		for i := range p {
			p[i] = (i + r) % n
		}
		out = append(out, p)
	}
	for s := 0; s+1 < n; s++ {
		p := make([]int, n)
		for i := range p {
			p[i] = i
		}
		p[s], p[s+1] = p[s+1], p[s]
		out = append(out, p)
	}
	return out
}

type C06 struct {
	Vals  []hub.Validator
	User  sdk.AccAddress
	Pairs bool
	Alpha string // "hub" | "oracle"
}

func NewC06(tier, alpha string) *C06 {
	c := &C06{User: hub.User("u1"), Pairs: tier == "thorough", Alpha: alpha}
	for i := 0; i < 4; i++ {
		c.Vals = append(c.Vals, hub.NewValidator(string(rune('A'+i))))
	}
	return c
}

func (c *C06) ID() string             { return "C06" }
func (c *C06) Setup(in *hub.Instance) {}
func (c *C06) SeedPaths() [][]engine.Op {
	if c.Alpha == "hub3" {
		// three accepted vote records with distinct nonces (what a late first voter walks over)
		return [][]engine.Op{{engine.OpN("Dep", "ethereum"), engine.OpN("Dep", "ethereum"), engine.OpN("Dep", "ethereum"), engine.OpN("Next")}}
	}
	return [][]engine.Op{{}}
}
func (c *C06) Genesis() hub.Genesis {
	g := StdGenesis(c.Vals, []int64{10, 10, 10, 0}, []sdk.AccAddress{c.User}, sdk.NewCoins(sdk.NewInt64Coin("hub", 1_000_000_000), sdk.NewInt64Coin("eth", 1_000_000_000)))
	g.Staking[3].Power = 9
	var infos []*mhubtypes.TokenInfo
	for i, t := range stdTokens(18) {
		infos = append(infos, &mhubtypes.TokenInfo{Id: uint64(i + 1), Denom: t.Denom, ChainId: t.Chain, ExternalTokenId: t.ExtID, ExternalDecimals: t.Dec, Commission: sdk.NewDec(1).QuoInt64(100)})
	}
	g.Hub.TokenInfos = &mhubtypes.TokenInfos{TokenInfos: infos}
	return g
}

type c06Ghost struct {
	Ev map[string]uint64
}

func (g *c06Ghost) Clone() Ghost               { return &c06Ghost{Ev: cloneU(g.Ev)} }
func (g *c06Ghost) Canon() string              { return canonMap(g.Ev) }
func (c *C06) NewGhost(in *hub.Instance) Ghost { return &c06Ghost{Ev: map[string]uint64{}} }

func (c *C06) Ops(s *HState) []engine.Op {
	if c.Alpha == "holders" {
		// lists 0 and 1 are the same holder set in a different order (one claim hash), list 2 conflicts
		return []engine.Op{engine.OpN("Boundary"), engine.OpN("Holders", 0, 0), engine.OpN("Holders", 1, 1), engine.OpN("Holders", 2, 0), engine.OpN("Holders", 2, 2)}
	}
	if c.Alpha == "oracle" {
		// the oracle's attestation handler expands every vote into up to 65535 entries per price:
		// one epoch costs ~50 ms, so this alphabet is kept small
		ops := []engine.Op{engine.OpN("Boundary")}
		for v := 0; v < 3; v++ {
			ops = append(ops, engine.OpN("Prices", v, int64(v%2)), engine.OpN("Holders", v, int64(v%2)))
		}
		return ops
	}
	// NextLong: the next block starts more than the outgoing-transfer timeout later (expiry refunds run)
	ops := []engine.Op{engine.OpN("Next"), engine.OpN("NextLong")}
	for _, ch := range []string{"ethereum", "minter"} {
		for _, d := range []string{"hub", "eth"} {
			ops = append(ops, engine.OpN("Send", ch, d))
		}
		ops = append(ops, engine.OpN("Dep", ch), engine.OpN("DepSplit", ch))
	}
	// a deposit of a token contract that is not listed: the event reaches the quorum and its handling fails
	ops = append(ops, engine.OpN("DepBad", "ethereum"))
	ops = append(ops, engine.OpN("Bond", 3), engine.OpN("FirstVote", 3), engine.OpN("SetPower", 0, 30))
	if c.Alpha == "hub" {
		// governance changes the token list (commission of hub@ethereum 1% <-> 5%): later transfers depend on it
		ops = append(ops, engine.OpN("Commission"))
	}
	return ops
}

// apply executes the operation itself (no oracle); ghost changes are deterministic functions of op.
func (c *C06) apply(in *hub.Instance, g *c06Ghost, op engine.Op) (pruned bool) {
	switch op.Kind {
	case "Next":
		return in.NextBlock(5) != nil
	case "NextLong":
		return in.NextBlock(86400) != nil
	case "Boundary":
		for {
			b := in.Height%5 == 0
			if in.NextBlock(5) != nil {
				return true
			}
			if b {
				return false
			}
		}
	case "Send":
		in.DeliverMsg(mhubtypes.NewMsgSendToExternal(mhubtypes.ChainID(op.S[0]), c.User, hub.HexAddr("r"), sdk.NewInt64Coin(op.S[1], 100000), sdk.NewInt64Coin(op.S[1], 100)))
	case "Dep", "DepSplit", "DepBad":
		ch := op.S[0]
		g.Ev[ch]++
		tok := map[string]string{"ethereum": EthHub, "minter": "1"}[ch]
		if op.Kind == "DepBad" {
			tok = hub.HexAddr("c06-unlisted-token")
		}
		for i, v := range c.Vals[:3] {
			amt := int64(1000)
			if op.Kind == "DepSplit" && i == 2 {
				amt = 2000 // a conflicting claim at the same nonce: two records at one nonce
			}
			ev := &mhubtypes.SendToHubEvent{EventNonce: g.Ev[ch], ExternalCoinId: tok, Amount: sdk.NewInt(amt), Sender: hub.HexAddr("s"), CosmosReceiver: c.User.String(), ExternalHeight: 100 + g.Ev[ch], TxHash: fmt.Sprintf("0x%s%d", ch, g.Ev[ch])}
			in.DeliverMsg(hub.EventMsg(v.Orch, ch, ev))
		}
	case "Commission":
		ti := in.Hub.GetTokenInfos(in.Ctx())
		for _, t := range ti.TokenInfos {
			if t.ChainId == "ethereum" && t.Denom == "hub" {
				if t.Commission.Equal(sdk.NewDec(1).QuoInt64(100)) {
					t.Commission = sdk.NewDec(5).QuoInt64(100)
				} else {
					t.Commission = sdk.NewDec(1).QuoInt64(100)
				}
			}
		}
		_ = in.Proposal(&mhubtypes.TokenInfosChangeProposal{NewInfos: ti})
	case "Bond":
		in.ValRebond(int(op.I[0]))
	case "SetPower":
		in.ValSetPower(int(op.I[0]), op.I[1])
	case "FirstVote":
		// a validator that never voted submits its first claim (walks the vote-record map)
		v := c.Vals[op.I[0]]
		n := in.Hub.GetLastObservedEventNonce(in.Ctx(), "ethereum")
		ev := &mhubtypes.SendToHubEvent{EventNonce: n + 1, ExternalCoinId: EthHub, Amount: sdk.NewInt(1000), Sender: hub.HexAddr("s"), CosmosReceiver: c.User.String(), ExternalHeight: 100 + n + 1, TxHash: fmt.Sprintf("0xethereum%d", n+1)}
		in.DeliverMsg(hub.EventMsg(v.Orch, "ethereum", ev))
	case "Prices":
		epoch := in.Oracle.GetCurrentEpoch(in.Ctx())
		var pl []*oracletypes.Price
		for i, n := range []string{"eth", "ethereum/gas", "bnb", "bsc/gas", "hub"} {
			pl = append(pl, &oracletypes.Price{Name: n, Value: sdk.NewDec(int64(100*(op.I[1]+1)) + int64(i))})
		}
		in.DeliverMsg(&oracletypes.MsgPriceClaim{Epoch: epoch, Prices: &oracletypes.Prices{List: pl}, Orchestrator: c.Vals[op.I[0]].Acc.String()})
	case "Holders":
		epoch := in.Oracle.GetCurrentEpoch(in.Ctx())
		in.DeliverMsg(&oracletypes.MsgHoldersClaim{Epoch: epoch, Holders: c18Holders(op.I[1]), Orchestrator: c.Vals[op.I[0]].Acc.String()})
	}
	return false
}

func c06Digest(in *hub.Instance) string {
	h := sha256.New()
	h.Write([]byte(in.Snapshot().StoreDigest()))
	for _, e := range in.Events {
		h.Write([]byte(e.Type))
		for _, a := range e.Attributes {
			h.Write(a.Key)
			h.Write([]byte{0})
			h.Write(a.Value)
			h.Write([]byte{1})
		}
	}
	return fmt.Sprintf("%x", h.Sum(nil)[:16])
}

func (c *C06) Do(in *hub.Instance, gg Ghost, op engine.Op, st *engine.Step) {
	g := gg.(*c06Ghost)
	gid := c06gid()
	pre := in.Snapshot()
	run := func(plan map[int][]int) (string, []c06Point, bool, *hub.Snapshot) {
		in.Restore(pre)
		in.Events = nil
		ch := &c06Chooser{plan: plan}
		c06Choosers.Store(gid, ch)
		g2 := g.Clone().(*c06Ghost)
		pruned := c.apply(in, g2, op)
		c06Choosers.Delete(gid)
		return c06Digest(in), ch.log, pruned, nil
	}
	d0, log, pruned, _ := run(nil)
	if pruned {
		st.Pruned = "pruned_block_failure"
		return
	}
	st.Count("choice_points", len(log))
	check := func(plan map[int][]int, desc string) {
		d, _, p, _ := run(plan)
		st.Count("orders_tried", 1)
		if p || d != d0 {
			site := "?"
			for i := range plan {
				if i < len(log) {
					site = log[i].Site
				}
			}
			rule := "result_depends_on_map_iteration_order"
			if strings.HasPrefix(site, "clock:") {
				rule = "result_depends_on_wall_clock_or_timer"
			}
			st.Violate("C06", rule, site, "op %s: digest %s under the default answer, %s under %s", op, d0, d, desc)
		}
	}
	for i, p := range log {
		for _, alt := range c06Alts(p.N) {
			check(map[int][]int{i: alt}, fmt.Sprintf("order %v at choice point %d (%s, %d keys)", alt, i, p.Site, p.N))
			if len(st.Violations) > 0 {
				break
			}
		}
		if p.N >= 2 {
			st.Count("choice_points_with_2plus_keys", 1)
		}
	}
	if c.Pairs && len(st.Violations) == 0 {
		for i := 0; i < len(log); i++ {
			for j := i + 1; j < len(log); j++ {
				ai, aj := c06Alts(log[i].N), c06Alts(log[j].N)
				if len(ai) == 0 || len(aj) == 0 {
					continue
				}
				// last alternative of each (full reverse for n<=4 enumerations ends with the reverse)
				check(map[int][]int{i: ai[len(ai)-1], j: aj[len(aj)-1]}, fmt.Sprintf("two deviations at %d,%d", i, j))
			}
		}
	}
	// read-only queries (every gRPC query of both modules, on the committed and on the working state) served before the
	// operation and, inside a block transition, between EndBlock and Commit, change nothing
	if len(st.Violations) == 0 {
		qa := hub.QueryArgs{Chains: []string{"ethereum", "minter"}, Validator: c.Vals[0].Oper.String(), Account: c.User.String(), External: c.Vals[0].Eth.Hex(), Denom: "hub", ExternalID: EthHub, TxHash: "0xethereum1"}
		in.Restore(pre)
		in.Events = nil
		served := in.SweepBoth(qa)
		in.BeforeCommit = func() { served += in.SweepBoth(qa) }
		g2 := g.Clone().(*c06Ghost)
		p := c.apply(in, g2, op)
		in.BeforeCommit = nil
		st.Count("queries_served", served)
		if d := c06Digest(in); p || d != d0 {
			st.Violate("C06", "result_depends_on_queries_served", op.Kind, "op %s: digest %s without queries, %s when the gRPC queries are served before it (and between EndBlock and Commit)", op, d0, d)
		}
	}
	// a process that has never seen any other state (fresh keepers, codec, stores) computes the same result from the same
	// state as one that has: the long-lived instance of this worker (whatever the search made it execute before) and an
	// instance that has just executed a history through other states - every sibling operation, one after the other - (reproducible from the path alone)
	if len(st.Violations) == 0 {
		runOn := func(x *hub.Instance) (string, bool) {
			x.Restore(pre)
			x.Events = nil
			g2 := g.Clone().(*c06Ghost)
			p := c.apply(x, g2, op)
			return c06Digest(x), p
		}
		mkFresh := func() *hub.Instance {
			f := hub.New()
			f.AnteSeq, f.GenesisClosed = in.AnteSeq, in.GenesisClosed
			return f
		}
		dF, pF := runOn(mkFresh())
		st.Count("fresh_instance_runs", 1)
		if pF || dF != d0 {
			// the long-lived instance disagrees with a fresh one: confirm that fresh instances agree with each other and
			// that the sibling-polluted instance reproduces the disagreement before reporting it
			st.Count("instance_disagreements", 1)
		}
		if c.Alpha == "hub" || pF || dF != d0 {
			sibs := c.Ops(&HState{G: g})
			polluted := func(reverse bool) (string, bool) {
				// the sibling operations are executed one after the other (a history through OTHER states), then the
				// instance is put back on this state
				x := mkFresh()
				x.Restore(pre)
				gx := g.Clone().(*c06Ghost)
				for i := range sibs {
					sib := sibs[i]
					if reverse {
						sib = sibs[len(sibs)-1-i]
					}
					if c.apply(x, gx, sib) {
						x.Restore(pre) // a failed block: start over from this state
					}
				}
				st.Count("sibling_polluted_runs", 1)
				return runOn(x)
			}
			dX, pX := polluted(true)
			if pX == pF && dX == dF && (pF || dF != d0) {
				dX, pX = polluted(false)
			}
			if pX != pF || dX != dF {
				st.Violate("C06", "result_depends_on_process_instance", op.Kind, "op %s: digest %s on a fresh instance, %s on an instance that executed all sibling operations one after the other before being put on the same state (long-lived instance: %s)", op, dF, dX, d0)
			} else if pF || dF != d0 {
				// only the search's own long-lived instance disagrees: not reproducible from the path alone, so it is confirmed
				// here (a second fresh instance agrees with the first, the long-lived one repeats its own answer)
				dF2, _ := runOn(mkFresh())
				d0b, _ := runOn(in)
				if dF2 == dF && d0b == d0 {
					st.Violate("C06", "nondeterministic_result_depends_on_process_history", op.Kind, "op %s: digest %s (twice) on fresh instances, %s (twice) on the instance that has executed other histories before", op, dF, d0)
				}
			}
		}
	}
	// leave the instance in the canonical post-state
	in.Restore(pre)
	in.Events = nil
	c06Choosers.Delete(gid)
	c.apply(in, g, op)
	st.Obs = d0[:6]
	// what a node emits must not depend on where its binary was built: a source file path in an event attribute (the
	// " [dir/file.go:line]" suffix cosmos-sdk's wrapped errors print under %v) differs between two checkouts of one commit
	for _, e := range in.Events {
		for _, a := range e.Attributes {
			if m := c06SourcePath.Find(a.Value); m != nil {
				st.Violate("C06", "event_embeds_the_build_environment", e.Type+"."+string(a.Key), "op %s: event %s attribute %s = %q names the source file %s of the build: two nodes built from the same commit in different directories emit different events", op, e.Type, a.Key, a.Value, m)
			}
		}
	}
}

var c06SourcePath = regexp.MustCompile(`[^ \[\]"']*/[^ \[\]"']*\.go:[0-9]+`)

func init() {
	base := MultiRunner(func(tier string) ([]MultiCase, []string) {
		dh, do, dl := 4, 3, 400*time.Second
		if tier == "thorough" {
			dh, do, dl = 6, 5, 12*time.Minute
		}
		return []MultiCase{
				{Name: "mhub2 alphabet", Spec: NewC06(tier, "hub"), Cfg: engine.Config{MaxDepth: dh, Deadline: dl, ReplayLeaf: 60}},
				{Name: "mhub2 alphabet from three accepted vote records", Spec: NewC06(tier, "hub3"), Cfg: engine.Config{MaxDepth: dh - 2, Deadline: dl / 2, ReplayLeaf: 20}},
				{Name: "oracle alphabet", Spec: NewC06(tier, "oracle"), Cfg: engine.Config{MaxDepth: do, Deadline: dl, ReplayLeaf: 20}},
				{Name: "oracle holders alphabet (same set reported in different orders)", Spec: NewC06(tier, "holders"), Cfg: engine.Config{MaxDepth: do + 1, Deadline: dl, ReplayLeaf: 20}},
			}, []string{
				"built with the overlay generated by tools/maprw from the CURRENT tree: every range-over-map site of x/mhub2 and x/oracle is a choice point (sites listed in the evidence); so is every call of time.Now / time.Since / time.Until / context.WithTimeout / context.WithDeadline (two answers: default instant or one hour later, deadline never fires or has already passed); other timers, global randomness and go statements in module code are listed as uninstrumented (the unchanged tree has none)",
				"alphabets put >=2 entries into every iterated map: two token ids per chain in the pool at batching time, two event nonces / two conflicting claims in one tally, first vote of a new validator, power change (PowerDiff), two price sets, two holder lists, several validators",
				"maps of <=4 keys: all n! orders; larger: reverse, rotations, adjacent swaps; deviation bound 1 (quick) / 2 (thorough) per transition",
				"every transition is additionally executed (a) after serving every gRPC query of both modules on the committed and the working state (also between EndBlock and Commit) and (b) on a fresh instance (new keepers, codecs, stores) restored from the same state; both must reproduce the digest of state and events: process-local state outside the store would show",
				"of the SDK's own maps the one that decides emitted bytes is instrumented (types/events.go: typed events); the others are not (cachekv sorts before writing); fresh-instance determinism is covered by the straight-line replays from genesis, which must reproduce the explored state digests",
				"process-global state: every package-level variable of the module packages (generated code excepted) is listed by tools/maprw; the ones the code can modify after initialisation get a scheduling point before and after every statement that mentions them, and a block transition is interleaved with a concurrent query or transaction simulation (separate instances restored from one state: only process-global memory is shared) under every schedule with at most 1 (quick) / 2 (thorough) preemptions at those points; what the variables refer to is hashed by reflection at the start and at the end of the check",
			}
	})
	Register("C06", func(tier string) *Runner {
		b := base(tier)
		return &Runner{Replay: b.Replay, Run: func(o RunOpts) Output {
			if os.Getenv("C06_SHARED_ONLY") != "" { // development aid: only the second half
				r := c06RunShared(o.Tier)
				return Output{Summary: fmt.Sprintf("shared only: %+v", r), Evidence: map[string]interface{}{"coverage": map[string]interface{}{}}}
			}
			out := b.Run(o)
			if len(out.Violations) > 0 || out.InternalError != "" {
				return out
			}
			r := c06RunShared(o.Tier)
			if r.Violation != nil {
				out.Violations = append(out.Violations, engine.Found{Violation: *r.Violation, Reproduced: 2})
			}
			cov := out.Evidence["coverage"].(map[string]interface{})
			cov["shared_state"] = map[string]interface{}{
				"package_level_variables_hashed": r.Globals, "block_step_query_pairs": r.Pairs, "schedules_executed": r.Schedules, "preemption_bound": r.Bound,
				"scheduling_points_in_default_schedules": r.Points, "max_points_in_one_schedule": r.MaxPoints, "points_by_variable": r.PointNames,
				"variables_whose_contents_changed_during_the_check": r.ChangedGlobals, "schedules_stuck_on_a_blocking_primitive": r.Stuck,
				"block_steps_repeated_under_other_local_time_zones": r.ZoneRuns,
				"rule": "pre-states {after genesis, a transfer pending, one transfer in a batch and one sent in the open even-height block} x block steps {Send ethereum, Dep ethereum, Next, NextLong, NextLong+Next, Send minter} (6-decimals token, holders at discount tiers) x {DiscountForHolder(user), DiscountForHolder(recipient), simulation of a withdrawal}; both starting orders; a switch is possible at every point where the other thread is alive",
			}
			out.Summary += fmt.Sprintf(" shared_state: globals=%d pairs=%d schedules=%d points=%d changed=%v stuck=%d", r.Globals, r.Pairs, r.Schedules, r.Points, r.ChangedGlobals, r.Stuck)
			return out
		}}
	})
}
