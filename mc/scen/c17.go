package scen

import (
	"bytes"
	"crypto/ecdsa"
	"fmt"
	"sort"
	"strings"
	"time"

	sdk "github.com/cosmos/cosmos-sdk/types"
	gethcommon "github.com/ethereum/go-ethereum/common"
	"github.com/ethereum/go-ethereum/crypto"

	"verifmc/engine"
	"verifmc/hub"

	mhubtypes "github.com/MinterTeam/mhub2/module/x/mhub2/types"
	oracletypes "github.com/MinterTeam/mhub2/module/x/oracle/types"
)

// C17: the delegate-key registry is one-to-one per chain and self-authorised.
type C17 struct {
	Vals   []hub.Validator // A, B bonded; C unknown to staking
	Orchs  []sdk.AccAddress
	Keys   []*ecdsa.PrivateKey
	Chains []string
	Leave  bool // validator A may leave for good (x/staking deletes its record) and be created again
	// GenKeys: the chain starts from a genesis file that binds A to (o1, e1) on every chain; 1: the entries carry no chain id
	// of their own (the enclosing external state names the chain), 2: they carry the OTHER chain's id (a hand-merged file)
	GenKeys int
	// Extra: chain ids registrations are also sent for, although they are not listed in Params.Chains (SetDelegateKeys takes
	// any chain id); the registries of the listed chains are what is checked
	Extra []string
}

func NewC17(tier string) *C17 {
	c := &C17{Vals: []hub.Validator{hub.NewValidator("A"), hub.NewValidator("B"), hub.NewValidator("C")}, Chains: []string{"ethereum", "bsc"}}
	c.Orchs = []sdk.AccAddress{sdk.AccAddress(hub.Addr20("o1")), sdk.AccAddress(hub.Addr20("o2")), c.Vals[1].Acc}
	c.Keys = []*ecdsa.PrivateKey{hub.EthKey("e1"), hub.EthKey("e2")}
	if tier != "thorough" {
		c.Chains = []string{"ethereum", "bsc"}
	}
	return c
}

// edgeValidator: a validator whose operator address is a given 20-byte pattern (the registry is a set of
// byte-ordered key ranges: the first and the last possible address sit at their borders).
func edgeValidator(name string, fill byte, last byte) hub.Validator {
	b := bytes.Repeat([]byte{fill}, 20)
	b[19] = last
	v := hub.NewValidator(name)
	v.Oper, v.Acc = sdk.ValAddress(b), sdk.AccAddress(b)
	return v
}

func (c *C17) ID() string               { return "C17" }
func (c *C17) Setup(in *hub.Instance)   { in.AnteSeq = true }
func (c *C17) SeedPaths() [][]engine.Op { return [][]engine.Op{{}} }
func (c *C17) Genesis() hub.Genesis {
	g := hub.Genesis{Hub: *mhubtypes.DefaultGenesisState(), Oracle: *oracletypes.DefaultGenesisState()}
	for i, v := range c.Vals {
		g.Accounts = append(g.Accounts, v.Acc)
		if i < 2 {
			g.Staking = append(g.Staking, hub.ValState{Oper: v.Oper.String(), Bonded: true, Power: 10})
		}
	}
	g.Accounts = append(g.Accounts, c.Orchs[0], c.Orchs[1])
	if c.GenKeys != 0 {
		for i, ch := range c.Chains {
			inner := ""
			if c.GenKeys == 2 {
				inner = c.Chains[(i+1)%len(c.Chains)]
			}
			es := &mhubtypes.ExternalState{ChainId: ch, LatestBlockHeight: mhubtypes.LatestBlockHeight{}}
			es.DelegateKeys = append(es.DelegateKeys, &mhubtypes.MsgDelegateKeys{ValidatorAddress: c.Vals[0].Oper.String(), OrchestratorAddress: c.Orchs[0].String(),
				ExternalAddress: crypto.PubkeyToAddress(c.Keys[0].PublicKey).Hex(), EthSignature: []byte{0}, ChainId: inner})
			g.Hub.ExternalStates = append(g.Hub.ExternalStates, es)
		}
	}
	return g
}

type c17Bind struct {
	Orch, Ext string
}

type c17Ghost struct {
	Cur map[string]c17Bind // "chain/val" -> current binding per successful registrations
	N   int
}

func (g *c17Ghost) Clone() Ghost {
	n := &c17Ghost{Cur: map[string]c17Bind{}, N: g.N}
	for k, v := range g.Cur {
		n.Cur[k] = v
	}
	return n
}
func (g *c17Ghost) Canon() string {
	var ks []string
	for k, v := range g.Cur {
		ks = append(ks, k+"="+v.Orch+"/"+v.Ext)
	}
	sort.Strings(ks)
	return strings.Join(ks, ",")
}
func (c *C17) NewGhost(in *hub.Instance) Ghost {
	g := &c17Ghost{Cur: map[string]c17Bind{}}
	if c.GenKeys != 0 {
		for _, ch := range c.Chains {
			g.Cur[ch+"/"+c.Vals[0].Oper.String()] = c17Bind{Orch: c.Orchs[0].String(), Ext: crypto.PubkeyToAddress(c.Keys[0].PublicKey).Hex()}
		}
	}
	return g
}

// Delegate(chain; val, orch, ext, sigkey(0 same,1 other), seqmode(0 correct,1 stale,2 other validator's name))
func (c *C17) Ops(s *HState) []engine.Op {
	var ops []engine.Op
	for _, ch := range append(append([]string{}, c.Chains...), c.Extra...) {
		for v := range c.Vals {
			for o := range c.Orchs {
				for e := range c.Keys {
					ops = append(ops, engine.OpN("Delegate", ch, v, o, e, 0, 0))
				}
			}
		}
		// invalid authorisations (a few representatives per chain)
		ops = append(ops,
			engine.OpN("Delegate", ch, 0, 0, 0, 1, 0), // signed by the other key
			engine.OpN("Delegate", ch, 0, 0, 0, 0, 1), // signature over the previous sequence (replay)
			engine.OpN("Delegate", ch, 1, 1, 1, 0, 2), // signature names another validator
			engine.OpN("Delegate", ch, 1, 1, 1, 1, 1),
		)
	}
	if c.Leave {
		if !s.Snap.Staking[0].Removed {
			ops = append(ops, engine.OpN("Leave"))
		} else {
			ops = append(ops, engine.OpN("Return"))
		}
	}
	return ops
}

func (c *C17) seq(in *hub.Instance, a sdk.AccAddress) uint64 {
	s, err := in.Acc.GetSequence(in.Ctx(), a)
	if err != nil {
		return 0
	}
	return s
}

func (c *C17) rawIndex(in *hub.Instance) map[string]string {
	out := map[string]string{}
	snap := in.Snapshot()
	for _, kv := range snap.Stores[mhubtypes.StoreKey] {
		if len(kv.K) > 0 && (kv.K[0] == mhubtypes.ValidatorExternalAddressKey || kv.K[0] == mhubtypes.OrchestratorValidatorAddressKey || kv.K[0] == mhubtypes.ExternalOrchestratorAddressKey) {
			out[string(kv.K)] = string(kv.V)
		}
	}
	return out
}

func sameIndex(a, b map[string]string) bool {
	if len(a) != len(b) {
		return false
	}
	for k, v := range a {
		if b[k] != v {
			return false
		}
	}
	return true
}

func (c *C17) Do(in *hub.Instance, gg Ghost, op engine.Op, st *engine.Step) {
	g := gg.(*c17Ghost)
	if op.Kind == "Leave" || op.Kind == "Return" {
		if op.Kind == "Leave" {
			in.ValLeave(0)
		} else {
			in.ValReturn(0, 10)
		}
		st.Obs = op.Kind
		c.invariants(in, g, st)
		return
	}
	ch := op.S[0]
	v, o, e, sk, sm := op.I[0], op.I[1], op.I[2], op.I[3], op.I[4]
	val := c.Vals[v]
	key := c.Keys[e]
	signKey := key
	if sk == 1 {
		signKey = c.Keys[1-e]
	}
	seq := c.seq(in, val.Acc)
	signSeq := seq
	if sm == 1 && seq > 0 {
		signSeq = seq - 1
	}
	signer := val
	if sm == 2 {
		signer = c.Vals[0]
	}
	msg := hub.DelegateKeysMsg(in.Cdc, signer, ch, c.Orchs[o], signKey, signSeq)
	msg.ValidatorAddress = val.Oper.String()
	msg.ExternalAddress = crypto.PubkeyToAddress(key.PublicKey).Hex()
	// who must sign the transaction: exactly the validator's own account
	if sg := msg.GetSigners(); len(sg) != 1 || !sg[0].Equals(val.Acc) {
		st.Violate("C17", "registration_not_signed_by_validator_account", "MsgDelegateKeys.GetSigners", "signers %v, validator account %s", sg, val.Acc)
	}
	pre := c.rawIndex(in)
	r := in.DeliverMsg(msg)
	post := c.rawIndex(in)
	st.Obs = fmt.Sprint(r.OK())
	sigValid := sk == 0 && signSeq == seq && sm != 2
	if sm == 1 && seq == 0 {
		sigValid = sk == 0 // stale == correct when there is no earlier sequence
	}
	if !r.OK() {
		st.Count("registrations_rejected", 1)
		if !sameIndex(pre, post) {
			st.Violate("C17", "failed_registration_changed_registry", "SetDelegateKeys", "op %s failed but the key indexes changed", op)
		}
	} else {
		st.Count("registrations_ok", 1)
		if !sigValid {
			st.Violate("C17", "binding_created_without_valid_signature", "SetDelegateKeys", "op %s succeeded (signature by key %d over sequence %d, account sequence %d, mode %d)", op, 1-int64(sk^0)*0+int64(sk), signSeq, seq, sm)
		}
		if v == 2 {
			st.Violate("C17", "binding_created_for_unknown_validator", "SetDelegateKeys", "op %s succeeded for a validator staking does not know", op)
		}
		g.Cur[ch+"/"+val.Oper.String()] = c17Bind{Orch: c.Orchs[o].String(), Ext: crypto.PubkeyToAddress(key.PublicKey).Hex()}
		g.N++
	}
	c.invariants(in, g, st)
}

func (c *C17) invariants(in *hub.Instance, g *c17Ghost, st *engine.Step) {
	ctx := in.Ctx()
	for _, ch := range c.Chains {
		chain := mhubtypes.ChainID(ch)
		// the registry of the chain as clients (and the genesis export) see it: exactly the bindings made for this chain
		if res, err := in.Hub.DelegateKeys(sdk.WrapSDKContext(ctx), &mhubtypes.DelegateKeysRequest{ChainId: ch}); err == nil {
			listed := map[string]bool{}
			for _, dk := range res.DelegateKeys {
				listed[dk.ValidatorAddress] = true
				b, ok := g.Cur[ch+"/"+dk.ValidatorAddress]
				if !ok {
					st.Violate("C17", "registry_lists_a_binding_nobody_made", "getDelegateKeys", "chain %s: the registry lists validator %s (external address %s, orchestrator %q); no registration for %s created it", ch, dk.ValidatorAddress, dk.ExternalAddress, dk.OrchestratorAddress, ch)
					continue
				}
				if b.Ext != dk.ExternalAddress || b.Orch != dk.OrchestratorAddress {
					st.Violate("C17", "registry_view_differs_from_registration", "getDelegateKeys", "chain %s: %s registered (%s, %s), the registry lists (%s, %s)", ch, dk.ValidatorAddress, b.Ext, b.Orch, dk.ExternalAddress, dk.OrchestratorAddress)
				}
			}
			for k := range g.Cur {
				if strings.HasPrefix(k, ch+"/") && !listed[strings.TrimPrefix(k, ch+"/")] {
					st.Violate("C17", "registry_view_differs_from_registration", "getDelegateKeys", "chain %s: the binding of %s is missing from the registry", ch, strings.TrimPrefix(k, ch+"/"))
				}
			}
		}
		// val -> ext must be injective (raw index)
		extOwner := map[string]string{}
		for _, v := range c.Vals {
			ext := in.Hub.GetValidatorExternalAddress(ctx, chain, v.Oper)
			if ext == (gethcommon.Address{}) {
				continue
			}
			if other, dup := extOwner[ext.Hex()]; dup {
				st.Violate("C17", "external_address_bound_to_two_validators", "setValidatorExternalAddress", "chain %s: %s bound to %s and %s", ch, ext.Hex(), other, v.Name)
			}
			extOwner[ext.Hex()] = v.Name
		}
		// every current binding resolves consistently through the three indexes, and its orchestrator
		// account resolves to the validator that registered it
		orchOwner := map[string]string{}
		for _, v := range c.Vals {
			b, ok := g.Cur[ch+"/"+v.Oper.String()]
			if !ok {
				continue
			}
			if other, dup := orchOwner[b.Orch]; dup {
				st.Violate("C17", "orchestrator_bound_to_two_validators", "SetOrchestratorValidatorAddress", "chain %s: orchestrator %s is the current orchestrator of %s and %s", ch, b.Orch, other, v.Name)
			}
			orchOwner[b.Orch] = v.Name
			orch, _ := sdk.AccAddressFromBech32(b.Orch)
			if got := in.Hub.GetOrchestratorValidatorAddress(ctx, chain, orch); !bytes.Equal(got, v.Oper) {
				st.Violate("C17", "orchestrator_resolves_to_other_validator", "GetOrchestratorValidatorAddress", "chain %s: orchestrator of %s resolves to %s", ch, v.Name, sdk.ValAddress(got))
			}
			if ext := in.Hub.GetValidatorExternalAddress(ctx, chain, v.Oper); ext.Hex() != b.Ext {
				st.Violate("C17", "validator_external_address_mismatch", "GetValidatorExternalAddress", "chain %s: %s registered %s, index says %s", ch, v.Name, b.Ext, ext.Hex())
			}
			if o2 := in.Hub.GetExternalOrchestratorAddress(ctx, chain, gethcommon.HexToAddress(b.Ext)); !bytes.Equal(o2, orch) {
				st.Violate("C17", "external_address_resolves_to_other_orchestrator", "GetExternalOrchestratorAddress", "chain %s: %s -> %s, registered orchestrator %s", ch, b.Ext, sdk.AccAddress(o2), b.Orch)
			}
			// end-to-end attribution: a claim sent by the orchestrator is recorded under this validator
			if v.Name != "C" {
				snap := in.Snapshot()
				ev := &mhubtypes.SendToHubEvent{EventNonce: 1, ExternalCoinId: evTokenFor(ch), Amount: sdk.NewInt(1), Sender: hub.HexAddr("s"), CosmosReceiver: v.Acc.String(), ExternalHeight: 5, TxHash: "0xprobe"}
				r := in.DeliverMsg(hub.EventMsg(orch, ch, ev))
				if r.OK() {
					rec := in.Hub.GetExternalEventVoteRecord(in.Ctx(), chain, 1, ev.Hash())
					if rec == nil || len(rec.Votes) != 1 || rec.Votes[0] != v.Oper.String() {
						st.Violate("C17", "orchestrator_vote_attributed_to_other_validator", "getSignerValidator", "chain %s: claim by the orchestrator of %s recorded as %v", ch, v.Name, rec)
					}
					st.Count("attribution_probes", 1)
				}
				seqKeep := in.AnteSeq
				in.Restore(snap)
				in.AnteSeq = seqKeep
			}
		}
	}
}

func evTokenFor(chain string) string {
	if chain == "bsc" {
		return BscHub
	}
	return EthHub
}

func init() {
	c17base := MultiRunner(func(tier string) ([]MultiCase, []string) {
		d2, d1, dl := 4, 5, 60*time.Second
		if tier == "thorough" {
			d2, d1, dl = 4, 6, 10*time.Minute
		}
		two := NewC17(tier)
		one := NewC17(tier)
		one.Chains = []string{"ethereum"} // longer re-registration sequences on a single chain
		// operator addresses at the borders of the byte-ordered key space (0xff.., 0x00..)
		edge := NewC17(tier)
		edge.Chains = []string{"ethereum"}
		edge.Vals = []hub.Validator{edgeValidator("A", 0xff, 0xfe), edgeValidator("B", 0x00, 0x01), hub.NewValidator("C")}
		edge.Orchs[2] = edge.Vals[1].Acc
		lv := NewC17(tier)
		lv.Chains = []string{"ethereum"}
		lv.Leave = true
		edge2 := NewC17(tier)
		edge2.Chains = []string{"ethereum"}
		edge2.Vals = []hub.Validator{edgeValidator("A", 0x00, 0x00), edgeValidator("B", 0xff, 0xff), hub.NewValidator("C")}
		edge2.Orchs[2] = edge2.Vals[1].Acc
		gk1, gk2 := NewC17(tier), NewC17(tier)
		gk1.GenKeys, gk2.GenKeys = 1, 2
		un := NewC17(tier)
		un.Chains, un.Extra = []string{"bsc"}, []string{"bsc2", "bs"}
		return []MultiCase{{Name: "chains ethereum, bsc", Spec: two, Cfg: engine.Config{MaxDepth: d2, Deadline: dl, ReplayLeaf: 30}},
				{Name: "one chain, longer sequences", Spec: one, Cfg: engine.Config{MaxDepth: d1, Deadline: dl, ReplayLeaf: 30}},
				{Name: "operator addresses 0xff..fe and 0x00..01", Spec: edge, Cfg: engine.Config{MaxDepth: d2, Deadline: dl, ReplayLeaf: 30}},
				{Name: "operator addresses 0x00..00 and 0xff..ff", Spec: edge2, Cfg: engine.Config{MaxDepth: d2, Deadline: dl, ReplayLeaf: 30}},
				{Name: "validator A leaves for good and is created again", Spec: lv, Cfg: engine.Config{MaxDepth: d2, Deadline: dl, ReplayLeaf: 30}},
				{Name: "A's keys come from the genesis file (entries without a chain id of their own)", Spec: gk1, Cfg: engine.Config{MaxDepth: d2 - 1, Deadline: dl, ReplayLeaf: 30}},
				{Name: "A's keys come from the genesis file (entries naming the other chain)", Spec: gk2, Cfg: engine.Config{MaxDepth: d2 - 1, Deadline: dl, ReplayLeaf: 30}},
				{Name: "registrations for chain ids that are not listed (bsc2, bs) next to bsc", Spec: un, Cfg: engine.Config{MaxDepth: d2 - 1, Deadline: dl, ReplayLeaf: 30}}}, []string{
				"validators A, B (bonded), C (unknown to staking); orchestrator accounts o1, o2 and B's own account; external keys e1, e2; chains ethereum, bsc; signer sequences are bumped like the ante handler does (persisting on failure)",
				"that the transaction is signed by the account MsgDelegateKeys.GetSigners names is enforced by the SDK ante handler; the check verifies GetSigners names exactly the validator's own account",
				"only-if direction: a successful registration must carry a valid signature of the external key over (validator, sequence) and keep the registry one-to-one; rejecting a valid one is not a violation",
			}
	})
	Register("C17", func(tier string) *Runner {
		b := c17base(tier)
		return &Runner{Replay: b.Replay, Run: func(o RunOpts) Output {
			out := b.Run(o)
			n, bad := c17SignBytesGrid()
			if cov, ok := out.Evidence["coverage"].(map[string]interface{}); ok {
				cov["sign_bytes_grid_pairs"] = n
				cov["sign_bytes_grid_rule"] = "the bytes the validator's account signs in amino-JSON mode (MsgDelegateKeys.GetSignBytes) differ whenever one field of the registration differs - chain id, validator, orchestrator, external address, signature: a signed registration cannot be re-targeted"
			}
			if len(out.Violations) == 0 && out.InternalError == "" {
				for _, v := range bad {
					out.Violations = append(out.Violations, engine.Found{Violation: v, Reproduced: 5})
				}
			}
			out.Summary += fmt.Sprintf(" sign_bytes_pairs=%d", n)
			return out
		}}
	})
}

// c17SignBytesGrid: "a binding is created only by the validator's own account": what that account signs names every
// field of the registration.
func c17SignBytesGrid() (int, []engine.Violation) {
	v, w := hub.NewValidator("A"), hub.NewValidator("B")
	base := mhubtypes.MsgDelegateKeys{ValidatorAddress: v.Oper.String(), OrchestratorAddress: v.Orch.String(), ExternalAddress: v.Eth.Hex(), EthSignature: []byte{1, 2, 3}, ChainId: "ethereum"}
	type variant struct {
		name string
		m    mhubtypes.MsgDelegateKeys
	}
	vs := []variant{{"", base}}
	add := func(name string, f func(m *mhubtypes.MsgDelegateKeys)) {
		m := base
		f(&m)
		vs = append(vs, variant{name, m})
	}
	add("chain id bsc", func(m *mhubtypes.MsgDelegateKeys) { m.ChainId = "bsc" })
	add("chain id minter", func(m *mhubtypes.MsgDelegateKeys) { m.ChainId = "minter" })
	add("no chain id", func(m *mhubtypes.MsgDelegateKeys) { m.ChainId = "" })
	add("other validator", func(m *mhubtypes.MsgDelegateKeys) { m.ValidatorAddress = w.Oper.String() })
	add("other orchestrator", func(m *mhubtypes.MsgDelegateKeys) { m.OrchestratorAddress = w.Orch.String() })
	add("other external address", func(m *mhubtypes.MsgDelegateKeys) { m.ExternalAddress = w.Eth.Hex() })
	add("other signature", func(m *mhubtypes.MsgDelegateKeys) { m.EthSignature = []byte{1, 2, 4} })
	var bad []engine.Violation
	n := 0
	sb := func(m mhubtypes.MsgDelegateKeys) (out []byte) {
		defer func() { recover() }()
		return m.GetSignBytes()
	}
	for i := range vs {
		for j := i + 1; j < len(vs); j++ {
			n++
			a, b := sb(vs[i].m), sb(vs[j].m)
			if a != nil && b != nil && bytes.Equal(a, b) {
				bad = append(bad, engine.Violation{Property: "C17", Rule: "sign_bytes_do_not_bind_the_registration", Site: "MsgDelegateKeys.GetSignBytes",
					Detail: fmt.Sprintf("registrations %q and %q have the same sign bytes: the account's signature over one authorises the other", vs[i].name, vs[j].name)})
			}
		}
	}
	return n, bad
}
