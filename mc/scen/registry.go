package scen

import (
	"fmt"
	"sort"
	"strings"
	"time"

	"verifmc/engine"
)

type RunOpts struct {
	Tier    string
	Known   map[string]bool
	Workers int
}

type KnownOut struct {
	Count   int
	Example string
}

type Output struct {
	Known         map[string]*KnownOut
	Violations    []engine.Found
	InternalError string
	Evidence      map[string]interface{}
	Summary       string
}

type Runner struct {
	Run    func(RunOpts) Output
	Replay func(tier string, seed int, ops []engine.Op) []engine.Violation
}

var registry = map[string]func(tier string) *Runner{}

func Register(id string, f func(tier string) *Runner) { registry[id] = f }

func Lookup(id, tier string) *Runner {
	f := registry[id]
	if f == nil {
		return nil
	}
	return f(tier)
}

// BFSRunner wraps a Spec + bounds into a Runner producing model_checking evidence.
func BFSRunner(mk func(tier string) (Spec, engine.Config, []string)) func(tier string) *Runner {
	return func(tier string) *Runner {
		return &Runner{
			Run: func(o RunOpts) Output {
				spec, cfg, assumptions := mk(o.Tier)
				cfg.Known = o.Known
				if o.Workers > 0 {
					cfg.Workers = o.Workers
				}
				res := engine.Run(Adapter{Spec: spec}, cfg)
				return BFSOutput(res, cfg, assumptions)
			},
			Replay: func(tier string, seed int, ops []engine.Op) []engine.Violation {
				spec, _, _ := mk(tier)
				a := Adapter{Spec: spec}
				_, steps := a.Replay(a.NewWorker(), seed, ops)
				var vs []engine.Violation
				for _, s := range steps {
					vs = append(vs, s.Violations...)
				}
				return vs
			},
		}
	}
}

func BFSOutput(res *engine.Result, cfg engine.Config, assumptions []string) Output {
	out := Output{Known: map[string]*KnownOut{}, Violations: res.Violations, InternalError: res.InternalError}
	for sig, k := range res.Known {
		var p []string
		for _, o := range k.Path {
			p = append(p, o.String())
		}
		out.Known[sig] = &KnownOut{Count: k.Count, Example: strings.Join(p, ";") + " => " + k.Violation.Detail}
	}
	cov := map[string]interface{}{
		"states":                        res.States,
		"transitions":                   res.Transitions,
		"traces_validated_against_impl": res.Transitions,
		"straightline_replays_from_genesis": res.Replays,
		"max_depth":                     res.MaxDepth,
		"depth_bound":                   cfg.MaxDepth,
		"level_sizes":                   res.LevelSizes,
		"exhaustive":                    res.Exhaustive && res.InternalError == "",
		"cap_hit":                       res.CapHit,
		"nonvacuity_counters":           res.Counters,
		"transitions_per_op":            res.OpCounts,
		"pruned":                        res.Pruned,
		"distinct_observed_outcomes":    res.DistinctObs,
		"stuck_transitions":             res.Stuck,
		"samples":                       res.Samples,
		"explanation": "every transition is a call into the real mhub2/oracle keepers on a restored snapshot of the real KV stores; traces_validated_against_impl counts those real executions; straightline_replays_from_genesis counts leaf paths re-executed without snapshot/restore and compared by state digest",
	}
	if len(res.Samples) == 0 {
		cov["samples"] = [][]string{{"<no path: search stopped at the seed states>"}}
	}
	var kn []string
	for s, k := range res.Known {
		kn = append(kn, fmt.Sprintf("%s x%d", s, k.Count))
	}
	sort.Strings(kn)
	cov["known_findings_hit"] = kn
	out.Evidence = map[string]interface{}{
		"level":       "model_checking",
		"coverage":    cov,
		"assumptions": assumptions,
	}
	out.Summary = fmt.Sprintf("states=%d transitions=%d depth=%d/%d exhaustive=%v %s counters=%v known=%d search=%s",
		res.States, res.Transitions, res.MaxDepth, cfg.MaxDepth, res.Exhaustive, res.CapHit, res.Counters, len(res.Known), res.Wall.Round(time.Millisecond))
	return out
}

func init() {
	Register("C03", BFSRunner(func(tier string) (Spec, engine.Config, []string) {
		cfg := engine.Config{MaxDepth: 6, Deadline: 60 * time.Second, ReplayLeaf: 50}
		if tier == "thorough" {
			cfg = engine.Config{MaxDepth: 9, Deadline: 15 * time.Minute, ReplayLeaf: 500}
		}
		return NewC03(tier), cfg, []string{
			"3 bonded validators of equal power 10 (threshold floor(66*30/100)=19: two votes needed), one chain (ethereum), deposit events only",
			"event alphabet: nonces 1..3, two conflicting variants per nonce; amounts are distinct powers of 4 so that the balance identifies the multiset of applied events",
			"staking is a scripted table answering the calls the module makes",
		}
	}))
}
