#!/bin/bash
# usage: run.sh <patch> <check id>... — applies the patch to /repo, runs the quick checks, reverts.
P=$1; shift
cd /repo && git apply --check $P || { echo "patch does not apply to /repo HEAD"; exit 2; }
git apply $P
for id in "$@"; do
  out=$(cd /verif && bin/check $id ${TIER:-quick} 2>&1); rc=$?
  echo "$id rc=$rc $(echo "$out" | grep -m2 -A2 '^VIOLATION' | tr '\n' ' ' | cut -c1-600)"
done
cd /repo && git apply -R $P && git status --short | head -3
