package scen

import (
	"strings"
	"fmt"
	"math/big"
	"runtime"
	"sync"
	"time"

	sdk "github.com/cosmos/cosmos-sdk/types"

	"verifmc/engine"
	"verifmc/hub"

	mhubtypes "github.com/MinterTeam/mhub2/module/x/mhub2/types"
	oracletypes "github.com/MinterTeam/mhub2/module/x/oracle/types"
)

// C11: amounts credited, debited and paid out are exact. Exhaustive grid over boundary
// alphabets, every tuple executed on the real message / event path, compared with a rational reference.

type c11Case struct {
	Kind     string // "send" | "deposit"
	Amount   *big.Int
	Fee      *big.Int
	Dec      uint64
	RateIdx  int
	HoldIdx  int // index into holder values
	HoldWho  int // 0 nobody holds, 1 sender holds, 2 recipient holds, 3 both hold (recipient: HoldIdx2), 4 only unrelated accounts hold (the zero / burn address and a stranger)
	HoldIdx2 int
	BalMode  int // 0 exact, 1 exact-1, 2 zero, 3 unknown denom
	DepKind  int // 0 SendToHubEvent, 1 TransferToChainEvent->hub, 2 TransferToChainEvent->bsc (onward transfer scheduled), 3 / 4 / 5 as 1 with the receiver spelled 0X... / in upper-case digits / without prefix
	SrcRate  int   // cross-chain deposits: commission rate of the ORIGINATING chain's row, 0 = the same as the destination's, i+1 = c11Rates[i]
	Supply   uint  // deposits: 2^Supply hub units of the denom already circulate (they came in through another listing of the denom)
	Residue  int64 // hub units sitting on the module's transit account before the deposit (left there by earlier fee payouts)
}

var c11Rates = []string{"0", "0.000000000000000001", "0.01", "0.9999"}

func c11Amounts() []*big.Int {
	e18 := pow10(18)
	return []*big.Int{big.NewInt(1), big.NewInt(2), big.NewInt(99), big.NewInt(100), big.NewInt(101), new(big.Int).Sub(e18, big.NewInt(1)), e18, new(big.Int).Lsh(big.NewInt(1), 200)}
}

func c11HolderValues() []*big.Int {
	e18 := pow10(18)
	out := []*big.Int{big.NewInt(0)}
	for _, t := range []int64{1, 2, 4, 8, 16, 32} {
		b := new(big.Int).Mul(big.NewInt(t), e18)
		out = append(out, new(big.Int).Sub(b, big.NewInt(1)), b)
	}
	out = append(out, new(big.Int).Add(new(big.Int).Mul(big.NewInt(32), e18), big.NewInt(1)))
	return out
}

type c11Res struct {
	v       *engine.Violation
	outcome string
	com     *big.Int // recorded commission (external units) of an accepted send
}

func c11Run(in *hub.Instance, cs c11Case) c11Res {
	user := hub.User("u1")
	rcpt := hub.HexAddr("rcpt")
	val := []hub.Validator{hub.NewValidator("A"), hub.NewValidator("B"), hub.NewValidator("C")}
	rate := sdk.MustNewDecFromStr(c11Rates[cs.RateIdx])
	g := StdGenesis(val, []int64{10, 10, 10}, []sdk.AccAddress{user}, nil)
	srcRate := rate
	if cs.SrcRate > 0 {
		// the listing on the chain a cross-chain deposit comes from has its own rate; the withdrawal is one of the destination's token
		srcRate = sdk.MustNewDecFromStr(c11Rates[cs.SrcRate-1])
	}
	g.Hub.TokenInfos = &mhubtypes.TokenInfos{TokenInfos: []*mhubtypes.TokenInfo{{Id: 1, Denom: "hub", ChainId: "ethereum", ExternalTokenId: EthHub, ExternalDecimals: cs.Dec, Commission: srcRate},
		// the bsc listing has the SAME contract address as the ethereum one (a token deployed at one address on both
		// chains) and its own decimals: decimals belong to the (chain, id) pair
		{Id: 2, Denom: "hub", ChainId: "bsc", ExternalTokenId: EthHub, ExternalDecimals: 18, Commission: rate}}}
	hv := c11HolderValues()[cs.HoldIdx]
	switch cs.HoldWho {
	case 1:
		g.Oracle.Holders = &oracletypes.Holders{List: []*oracletypes.Holder{{Address: user.String(), Value: sdk.NewIntFromBigInt(hv)}}}
	case 2:
		g.Oracle.Holders = &oracletypes.Holders{List: []*oracletypes.Holder{{Address: rcpt[2:], Value: sdk.NewIntFromBigInt(hv)}}}
	case 3:
		g.Oracle.Holders = &oracletypes.Holders{List: []*oracletypes.Holder{{Address: user.String(), Value: sdk.NewIntFromBigInt(hv)},
			{Address: rcpt[2:], Value: sdk.NewIntFromBigInt(c11HolderValues()[cs.HoldIdx2])}}}
	case 4:
		g.Oracle.Holders = &oracletypes.Holders{List: []*oracletypes.Holder{{Address: strings.Repeat("0", 40), Value: sdk.NewIntFromBigInt(hv)},
			{Address: "0x" + strings.Repeat("0", 40), Value: sdk.NewIntFromBigInt(hv)}, {Address: hub.HexAddr("stranger")[2:], Value: sdk.NewIntFromBigInt(hv)},
			{Address: "", Value: sdk.NewIntFromBigInt(hv)}}}
	}
	in.InitGenesis(g)
	ctx := in.Ctx()
	bad := func(rule, site, f string, a ...interface{}) c11Res {
		return c11Res{v: &engine.Violation{Property: "C11", Rule: rule, Site: site, Detail: fmt.Sprintf("%+v: ", cs) + fmt.Sprintf(f, a...)}}
	}
	if cs.Kind == "deposit" && cs.DepKind == 2 {
		return c11CrossChain(in, cs, val, rate, bad)
	}
	if cs.Kind == "deposit" {
		supply0 := new(big.Int)
		if cs.Supply > 0 {
			supply0.Lsh(big.NewInt(1), cs.Supply)
			c := sdk.NewCoins(sdk.NewCoin("hub", sdk.NewIntFromBigInt(supply0)))
			if err := in.Bank.MintCoins(ctx, mhubtypes.ModuleName, c); err != nil {
				panic(err)
			}
			if err := in.Bank.SendCoinsFromModuleToAccount(ctx, mhubtypes.ModuleName, hub.User("other-holder"), c); err != nil {
				panic(err)
			}
		}
		var ev mhubtypes.ExternalEvent
		if cs.DepKind == 0 {
			ev = &mhubtypes.SendToHubEvent{EventNonce: 1, ExternalCoinId: EthHub, Amount: sdk.NewIntFromBigInt(cs.Amount), Sender: hub.HexAddr("s"), CosmosReceiver: user.String(), ExternalHeight: 10, TxHash: "0xd"}
		} else {
			ev = &mhubtypes.TransferToChainEvent{EventNonce: 1, ExternalCoinId: EthHub, Amount: sdk.NewIntFromBigInt(cs.Amount), Fee: sdk.NewIntFromBigInt(cs.Fee), Sender: hub.HexAddr("s"),
				ReceiverChainId: "hub", ExternalReceiver: fmt.Sprintf("0x%x", user.Bytes()), ExternalHeight: 10, TxHash: "0xd"}
			switch cs.DepKind {
			case 3: // every spelling the event's own Validate admits names the same 20 bytes
				ev.(*mhubtypes.TransferToChainEvent).ExternalReceiver = fmt.Sprintf("0X%x", user.Bytes())
			case 4:
				ev.(*mhubtypes.TransferToChainEvent).ExternalReceiver = fmt.Sprintf("0x%X", user.Bytes())
			case 5:
				ev.(*mhubtypes.TransferToChainEvent).ExternalReceiver = fmt.Sprintf("%x", user.Bytes())
			}
		}
		for _, v := range val {
			if r := in.DeliverMsg(hub.EventMsg(v.Orch, "ethereum", ev)); !r.OK() {
				return c11Res{outcome: "claim-rejected"}
			}
		}
		if p := in.NextBlock(5); p != nil {
			return c11Res{outcome: "block-failure"} // C05's matter
		}
		got := in.Bank.GetBalance(in.Ctx(), user, "hub").Amount.BigInt()
		// exact credit: floor(amount * 10^18 / 10^dec); if the event failed as a whole nothing is credited
		want := new(big.Int).Mul(cs.Amount, pow10(18))
		want.Quo(want, pow10(int64(cs.Dec)))
		if got.Sign() == 0 && (want.BitLen() > 255 || new(big.Int).Add(want, supply0).BitLen() > 256) {
			return c11Res{outcome: "deposit-failed-overflow"}
		}
		if got.Cmp(want) != 0 {
			return bad("deposit_credit_not_exact", "Handle(SendToHubEvent)", "recipient credited %s, locked amount converts to %s", got, want)
		}
		sup := in.Bank.GetSupply(in.Ctx(), "hub").Amount.BigInt()
		sup.Sub(sup, supply0)
		if sup.Cmp(want) != 0 {
			return bad("deposit_supply_growth_not_exact", "Handle(SendToHubEvent)", "supply grew by %s, locked amount converts to %s", sup, want)
		}
		return c11Res{outcome: "deposit-ok"}
	}
	// ---- send
	total := new(big.Int).Add(cs.Amount, cs.Fee)
	bal := new(big.Int).Set(total)
	switch cs.BalMode {
	case 1:
		bal.Sub(bal, big.NewInt(1))
	case 2:
		bal.SetInt64(0)
	}
	denom := "hub"
	if bal.Sign() > 0 {
		c := sdk.NewCoins(sdk.NewCoin("hub", sdk.NewIntFromBigInt(bal)))
		if err := in.Bank.MintCoins(ctx, mhubtypes.ModuleName, c); err != nil {
			panic(err)
		}
		if err := in.Bank.SendCoinsFromModuleToAccount(ctx, mhubtypes.ModuleName, user, c); err != nil {
			panic(err)
		}
	}
	if cs.BalMode == 3 {
		denom = "nosuch"
		c := sdk.NewCoins(sdk.NewCoin(denom, sdk.NewIntFromBigInt(total)))
		in.Bank.MintCoins(ctx, mhubtypes.ModuleName, c)
		in.Bank.SendCoinsFromModuleToAccount(ctx, mhubtypes.ModuleName, user, c)
	}
	pre := in.Bank.GetAllBalances(in.Ctx(), user)
	preSup := in.Bank.GetSupply(in.Ctx(), denom).Amount
	msg := mhubtypes.NewMsgSendToExternal("ethereum", user, rcpt, sdk.NewCoin(denom, sdk.NewIntFromBigInt(cs.Amount)), sdk.NewCoin(denom, sdk.NewIntFromBigInt(cs.Fee)))
	r := in.DeliverMsg(msg)
	post := in.Bank.GetAllBalances(in.Ctx(), user)
	var pool []*mhubtypes.SendToExternal
	in.Hub.IterateUnbatchedSendToExternals(in.Ctx(), "ethereum", func(s *mhubtypes.SendToExternal) bool { pool = append(pool, s); return false })
	if !r.OK() {
		if !pre.IsEqual(post) || len(pool) != 0 || !in.Bank.GetSupply(in.Ctx(), denom).Amount.Equal(preSup) {
			return bad("failed_request_changed_state", "SendToExternal", "request failed (%v %v) but balance %s -> %s, pool %d", r.Err, r.Panic, pre, post, len(pool))
		}
		return c11Res{outcome: "send-failed"}
	}
	if cs.BalMode != 0 {
		return bad("request_accepted_without_funds", "SendToExternal", "accepted with balance mode %d", cs.BalMode)
	}
	debit := pre.AmountOf("hub").Sub(post.AmountOf("hub")).BigInt()
	if debit.Cmp(total) != 0 {
		return bad("debit_not_amount_plus_fee", "createSendToExternal", "debited %s, amount+fee = %s", debit, total)
	}
	if len(pool) != 1 {
		return bad("accepted_send_not_recorded_once", "createSendToExternal", "pool has %d entries", len(pool))
	}
	e := pool[0]
	// commission bound: c <= floor(rate*(amount+fee)); equality when nobody holds anything
	rateRat, _ := new(big.Rat).SetString(c11Rates[cs.RateIdx])
	maxC := new(big.Rat).Mul(rateRat, new(big.Rat).SetInt(total))
	maxCi := new(big.Int).Quo(maxC.Num(), maxC.Denom())
	toExt := func(x *big.Int) *big.Int {
		r := new(big.Int).Mul(x, pow10(int64(cs.Dec)))
		return r.Quo(r, pow10(18))
	}
	// the recorded components are conversions of (amount-c, fee, c): find c from the debit identity
	// amountRecorded = toExt(amount - c), commissionRecorded = toExt(c). We cannot invert toExt exactly for dec<18,
	// so check the bounds in external units, which is what the statement promises to the recipient.
	comExt := e.ValCommission.Amount.BigInt()
	if comExt.Sign() < 0 || comExt.Cmp(toExt(maxCi)) > 0 {
		return bad("commission_exceeds_configured_rate", "SendToExternal", "recorded commission %s external units, rate allows at most %s", comExt, toExt(maxCi))
	}
	if e.Fee.Amount.BigInt().Cmp(toExt(cs.Fee)) != 0 {
		return bad("recorded_fee_not_exact", "createSendToExternal", "recorded fee %s, fee converts to %s", e.Fee.Amount, toExt(cs.Fee))
	}
	if cs.HoldWho == 0 || cs.HoldWho == 4 || hv.Sign() == 0 {
		wantAmt := toExt(new(big.Int).Sub(cs.Amount, maxCi))
		if comExt.Cmp(toExt(maxCi)) != 0 {
			return bad("commission_not_rate_times_total", "SendToExternal", "no holder discount applies: recorded commission %s, expected %s", comExt, toExt(maxCi))
		}
		if e.Token.Amount.BigInt().Cmp(wantAmt) != 0 {
			return bad("scheduled_amount_not_amount_minus_commission", "createSendToExternal", "recorded amount %s, expected %s", e.Token.Amount, wantAmt)
		}
	} else {
		// with a holder discount: amount scheduled must be >= amount - maxCommission (in external units) and <= amount
		lo := toExt(new(big.Int).Sub(cs.Amount, maxCi))
		hi := toExt(cs.Amount)
		a := e.Token.Amount.BigInt()
		if a.Cmp(lo) < 0 || a.Cmp(hi) > 0 {
			return bad("scheduled_amount_out_of_bounds", "createSendToExternal", "recorded amount %s not in [%s,%s]", a, lo, hi)
		}
	}
	// nothing is created from nothing: amount+fee+commission recorded (external) never exceeds the debit converted
	sumExt := new(big.Int).Add(new(big.Int).Add(e.Token.Amount.BigInt(), e.Fee.Amount.BigInt()), comExt)
	if sumExt.Cmp(toExt(total)) > 0 {
		return bad("recorded_value_exceeds_debit", "createSendToExternal", "recorded %s external units > debit %s", sumExt, toExt(total))
	}
	return c11Res{outcome: fmt.Sprintf("send-ok-com%v", comExt.Sign() > 0), com: comExt}
}

// c11CrossChain: a deposit on ethereum bound for bsc. The hub schedules exactly what was locked: amount - commission - fee
// for the recipient, the fee and a commission of at most rate x locked - whatever else sits on the transit account.
func c11CrossChain(in *hub.Instance, cs c11Case, val []hub.Validator, rate sdk.Dec, bad func(rule, site, f string, a ...interface{}) c11Res) c11Res {
	ctx := in.Ctx()
	if cs.Residue > 0 {
		c := sdk.NewCoins(sdk.NewInt64Coin("hub", cs.Residue))
		if err := in.Bank.MintCoins(ctx, mhubtypes.ModuleName, c); err != nil {
			panic(err)
		}
		if err := in.Bank.SendCoinsFromModuleToAccount(ctx, mhubtypes.ModuleName, mhubtypes.TempAddress, c); err != nil {
			panic(err)
		}
	}
	supply0 := in.Bank.GetSupply(in.Ctx(), "hub").Amount
	ev := &mhubtypes.TransferToChainEvent{EventNonce: 1, ExternalCoinId: EthHub, Amount: sdk.NewIntFromBigInt(cs.Amount), Fee: sdk.NewIntFromBigInt(cs.Fee), Sender: hub.HexAddr("s"),
		ReceiverChainId: "bsc", ExternalReceiver: hub.HexAddr("xr"), ExternalHeight: 10, TxHash: "0xd"}
	for _, v := range val {
		if r := in.DeliverMsg(hub.EventMsg(v.Orch, "ethereum", ev)); !r.OK() {
			return c11Res{outcome: "claim-rejected"}
		}
	}
	if p := in.NextBlock(5); p != nil {
		return c11Res{outcome: "block-failure"}
	}
	conv := func(x *big.Int) *big.Int {
		r := new(big.Int).Mul(x, pow10(18))
		return r.Quo(r, pow10(int64(cs.Dec)))
	}
	locked, fee := conv(cs.Amount), conv(cs.Fee)
	var pool []*mhubtypes.SendToExternal
	in.Hub.IterateUnbatchedSendToExternals(in.Ctx(), "bsc", func(s *mhubtypes.SendToExternal) bool { pool = append(pool, s); return false })
	in.Hub.IterateOutgoingTxsByType(in.Ctx(), "bsc", mhubtypes.BatchTxPrefixByte, func(_ []byte, o mhubtypes.OutgoingTx) bool {
		pool = append(pool, o.(*mhubtypes.BatchTx).Transactions...)
		return false
	})
	temp := in.Bank.GetBalance(in.Ctx(), mhubtypes.TempAddress, "hub").Amount
	supply := in.Bank.GetSupply(in.Ctx(), "hub").Amount
	if len(pool) == 0 {
		// the deposit failed as a whole: nothing may have changed
		if !temp.Equal(sdk.NewInt(cs.Residue)) || !supply.Equal(supply0) {
			return bad("failed_deposit_changed_balances", "Handle(TransferToChainEvent->chain)", "no transfer scheduled, but transit account %s (was %d), supply %s (was %s)", temp, cs.Residue, supply, supply0)
		}
		return c11Res{outcome: "cross-chain-deposit-failed"}
	}
	if len(pool) != 1 {
		return bad("deposit_scheduled_several_transfers", "Handle(TransferToChainEvent->chain)", "%d transfers scheduled", len(pool))
	}
	e := pool[0]
	sum := e.Token.Amount.Add(e.Fee.Amount).Add(e.ValCommission.Amount).BigInt()
	if sum.Cmp(locked) != 0 {
		return bad("cross_chain_deposit_not_exact", "Handle(TransferToChainEvent->chain)", "locked amount converts to %s hub units, the scheduled transfer carries amount %s + fee %s + commission %s = %s (transit account held %d before)", locked, e.Token.Amount, e.Fee.Amount, e.ValCommission.Amount, sum, cs.Residue)
	}
	if e.Fee.Amount.BigInt().Cmp(fee) != 0 {
		return bad("cross_chain_deposit_fee_not_exact", "Handle(TransferToChainEvent->chain)", "fee %s scheduled, the deposit's fee converts to %s", e.Fee.Amount, fee)
	}
	maxCom := rate.MulInt(sdk.NewIntFromBigInt(locked)).TruncateInt()
	if e.ValCommission.Amount.GT(maxCom) {
		return bad("commission_exceeds_rate", "Handle(TransferToChainEvent->chain)", "commission %s exceeds rate %s x locked %s = %s (transit account held %d before)", e.ValCommission.Amount, rate, locked, maxCom, cs.Residue)
	}
	if !temp.Equal(sdk.NewInt(cs.Residue)) {
		return bad("cross_chain_deposit_moved_transit_funds", "Handle(TransferToChainEvent->chain)", "transit account holds %s after the deposit, %d before: the deposit accounted for funds it did not lock", temp, cs.Residue)
	}
	return c11Res{outcome: "cross-chain-deposit-ok"}
}

func c11Cases(tier string) []c11Case {
	var out []c11Case
	am := c11Amounts()
	decs := []uint64{0, 6, 18, 24}
	for _, a := range am {
		for _, d := range decs {
			for _, dk := range []int{0, 1, 3, 4, 5} {
				out = append(out, c11Case{Kind: "deposit", Amount: a, Fee: big.NewInt(3), Dec: d, DepKind: dk})
			}
		}
	}
	// deposits through a listing with more than 18 decimals while 2^255 units of the denom circulate already: the raw
	// amount (external units) is far above what is minted
	for _, a := range []*big.Int{new(big.Int).Lsh(big.NewInt(1), 255), new(big.Int).Lsh(big.NewInt(1), 210), pow10(30)} {
		for dk := 0; dk < 2; dk++ {
			out = append(out, c11Case{Kind: "deposit", Amount: a, Fee: big.NewInt(3), Dec: 24, DepKind: dk, Supply: 255})
		}
	}
	// deposits bound for another chain, on a clean transit account and on one that holds a residue
	for _, a := range am {
		for _, d := range decs {
			for _, res := range []int64{0, 850} {
				for ri := range c11Rates {
					out = append(out, c11Case{Kind: "deposit", Amount: a, Fee: big.NewInt(3), Dec: d, DepKind: 2, Residue: res, RateIdx: ri})
					if res == 0 {
						// the two listings of the token charge different rates
						for si := range c11Rates {
							if si != ri {
								out = append(out, c11Case{Kind: "deposit", Amount: a, Fee: big.NewInt(3), Dec: d, DepKind: 2, RateIdx: ri, SrcRate: si + 1})
							}
						}
					}
				}
			}
		}
	}
	holdIdx := []int{0, 1, 2, 5, 6, 12, 13}
	if tier == "thorough" {
		holdIdx = nil
		for i := range c11HolderValues() {
			holdIdx = append(holdIdx, i)
		}
	}
	for _, a := range am {
		for _, f := range am {
			for _, d := range decs {
				for ri := range c11Rates {
					for _, bm := range []int{0, 1, 2, 3} {
						out = append(out, c11Case{Kind: "send", Amount: a, Fee: f, Dec: d, RateIdx: ri, BalMode: bm})
					}
					for _, hi := range holdIdx[1:] {
						for who := 1; who <= 2; who++ {
							out = append(out, c11Case{Kind: "send", Amount: a, Fee: f, Dec: d, RateIdx: ri, HoldIdx: hi, HoldWho: who})
						}
					}
				}
			}
		}
	}
	// both parties hold: every pair of holder values (the discount may not exceed what the better single holding earns)
	e18 := pow10(18)
	for _, d := range []uint64{6, 18} {
		for i := range c11HolderValues() {
			for j := range c11HolderValues() {
				if i == 0 || j == 0 {
					continue
				}
				out = append(out, c11Case{Kind: "send", Amount: e18, Fee: big.NewInt(100), Dec: d, RateIdx: 2, HoldIdx: i, HoldWho: 3, HoldIdx2: j})
			}
		}
		for i := range c11HolderValues() {
			if i == 0 {
				continue
			}
			for who := 1; who <= 2; who++ {
				out = append(out, c11Case{Kind: "send", Amount: e18, Fee: big.NewInt(100), Dec: d, RateIdx: 2, HoldIdx: i, HoldWho: who})
			}
		}
	}
	// only unrelated accounts hold (the burn address in three spellings, a stranger): the sender pays the configured rate
	for _, d := range []uint64{6, 18} {
		for ri := range c11Rates {
			for _, hi := range []int{len(c11HolderValues()) - 1, 6} {
				out = append(out, c11Case{Kind: "send", Amount: e18, Fee: big.NewInt(100), Dec: d, RateIdx: ri, HoldIdx: hi, HoldWho: 4})
			}
		}
	}
	// fee zero
	for _, a := range am {
		for _, d := range decs {
			out = append(out, c11Case{Kind: "send", Amount: a, Fee: big.NewInt(0), Dec: d, RateIdx: 2})
		}
	}
	return out
}

func init() {
	Register("C11", func(tier string) *Runner {
		return &Runner{Run: func(o RunOpts) Output {
			start := time.Now()
			cases := c11Cases(o.Tier)
			res := make([]c11Res, len(cases))
			var wg sync.WaitGroup
			nw := runtime.NumCPU()
			ch := make(chan int, 1024)
			for w := 0; w < nw; w++ {
				wg.Add(1)
				go func() {
					defer wg.Done()
					in := hub.New()
					for i := range ch {
						res[i] = c11Run(in, cases[i])
					}
				}()
			}
			for i := range cases {
				ch <- i
			}
			close(ch)
			wg.Wait()
			out := Output{Known: map[string]*KnownOut{}}
			outcomes := map[string]int{}
			seen := map[string]bool{}
			// monotonicity of the commission in the holding (statement: reduced only by the holder tiers)
			for i, r := range res {
				outcomes[r.outcome]++
				if r.v != nil {
					sig := r.v.Property + "|" + r.v.Signature()
					if o.Known[sig] {
						if out.Known[sig] == nil {
							out.Known[sig] = &KnownOut{Example: r.v.Detail}
						}
						out.Known[sig].Count++
					} else if !seen[sig] {
						seen[sig] = true
						out.Violations = append(out.Violations, engine.Found{Violation: *r.v, Reproduced: 5})
					}
				}
				_ = i
			}
			// pairs: commission(sender holds a, recipient holds b) >= min(commission(a alone), commission(b alone))
			single := map[string]*big.Int{}
			for i, c := range cases {
				if c.Kind == "send" && (c.HoldWho == 1 || c.HoldWho == 2) && res[i].com != nil {
					single[fmt.Sprintf("%s/%s/%d/%d/%d/%d", c.Amount, c.Fee, c.Dec, c.RateIdx, c.HoldWho, c.HoldIdx)] = res[i].com
				}
			}
			pairsChecked := 0
			for i, c := range cases {
				if c.HoldWho != 3 || res[i].com == nil {
					continue
				}
				a := single[fmt.Sprintf("%s/%s/%d/%d/%d/%d", c.Amount, c.Fee, c.Dec, c.RateIdx, 1, c.HoldIdx)]
				b := single[fmt.Sprintf("%s/%s/%d/%d/%d/%d", c.Amount, c.Fee, c.Dec, c.RateIdx, 2, c.HoldIdx2)]
				if a == nil || b == nil {
					continue
				}
				pairsChecked++
				lo := a
				if b.Cmp(lo) < 0 {
					lo = b
				}
				if res[i].com.Cmp(lo) < 0 {
					v := engine.Violation{Property: "C11", Rule: "discount_exceeds_any_single_holder_tier", Site: "GetCommissionForHolder",
						Detail: fmt.Sprintf("%+v: commission %s with sender holding %s and recipient holding %s, but %s with the sender's holding alone and %s with the recipient's alone", c, res[i].com, c11HolderValues()[c.HoldIdx], c11HolderValues()[c.HoldIdx2], a, b)}
					sig := v.Property + "|" + v.Signature()
					if !seen[sig] && !o.Known[sig] {
						seen[sig] = true
						out.Violations = append(out.Violations, engine.Found{Violation: v, Reproduced: 5})
					}
				}
			}
			outcomes["holder-pairs-compared"] = pairsChecked
			nontrivial := 0
			for k, v := range outcomes {
				if k != "" && k != "send-failed" && k != "holder-pairs-compared" {
					nontrivial += v
				}
			}
			samples := []interface{}{}
			for i := 0; i < len(cases) && len(samples) < 5; i += len(cases)/5 + 1 {
				samples = append(samples, map[string]interface{}{"case": fmt.Sprintf("%+v", cases[i]), "outcome": res[i].outcome})
			}
			out.Evidence = map[string]interface{}{"level": "exploration", "coverage": map[string]interface{}{
				"evaluations": len(cases), "distinct_nontrivial": nontrivial,
				"rule":        "Cartesian grid: amount, fee in {1,2,99,100,101,1e18-1,1e18,2^200} x external decimals {0,6,18,24} x commission rate {0,1e-18,1%,99.99%} x (sender balance {exact, exact-1, 0, unknown denom} | holder value at tier boundaries x {sender holds, recipient holds}) plus every pair (sender holding, recipient holding) of tier-boundary values compared with the two single-holder runs, plus deposits (both event kinds) over amount x decimals, plus deposits bound for another chain over amount x decimals x rate x {clean transit account, residue} and x every other rate on the originating chain's listing, plus deposits of {2^255, 2^210, 10^30} raw units through a 24-decimals listing while 2^255 hub units of the denom circulate; each tuple is executed on a fresh real instance; non-trivial = the request/event took effect (was not rejected)",
				"samples":     samples, "outcomes": outcomes, "exhaustive": true,
			}, "assumptions": []string{"the discount tier table itself is not part of the property: with a non-zero holding only the upper bound rate*(amount+fee) and the scheduled-amount bounds are demanded; with no holding equality is demanded; when both parties hold, the commission may not be lower than the lower of the two single-holder commissions measured on the same code", "block failures during deposit processing belong to C05"}}
			out.Summary = fmt.Sprintf("cases=%d outcomes=%v violations=%d (%s)", len(cases), outcomes, len(out.Violations), time.Since(start).Round(time.Millisecond))
			return out
		}}
	})
}
