package scen

import (
	"encoding/binary"
	"fmt"
	"sync"

	mhubtypes "github.com/MinterTeam/mhub2/module/x/mhub2/types"
	"verifmc/apph"
	"verifmc/engine"
)

// C02 on the application as wired: votes and quorum against the REAL x/staking statuses and powers. After every block the
// vote records of ethereum are read from the committed store: a validator whose vote appeared in this block was bonded
// when the block started, nobody is recorded twice, and an event applied in this block has distinct voters holding at
// least 66% of the bonded power the staking EndBlocker of this block left behind.

var c02AppStats struct {
	sync.Mutex
	VotesSeen, Applied, VotesRefusedWhileNotBonded int
}

type c02AppRec struct {
	votes    []string
	accepted bool
}

func c02AppRecords(c *apph.Chain) map[string]c02AppRec {
	out := map[string]c02AppRec{}
	pre := append([]byte{mhubtypes.ExternalEventVoteRecordKey}, []byte("ethereum")...)
	c.StoreWalk(mhubtypes.StoreKey, pre, func(k, v []byte) {
		var r mhubtypes.ExternalEventVoteRecord
		if err := c.App.AppCodec().Unmarshal(v, &r); err != nil {
			return
		}
		rest := k[len(pre):]
		if len(rest) < 8 {
			return
		}
		id := fmt.Sprintf("%d/%x", binary.BigEndian.Uint64(rest[:8]), rest[8:])
		out[id] = c02AppRec{votes: r.Votes, accepted: r.Accepted}
	})
	return out
}

func c02AppObserver() appObserver {
	var prevBonded map[string]int64
	prevRecs := map[string]c02AppRec{}
	return func(c *apph.Chain, op string) *engine.Violation {
		snap, err := c09AppSnapshot(c)
		if err != nil {
			return &engine.Violation{Property: "C02", Rule: "application_query_failed", Site: "app", Detail: err.Error()}
		}
		recs := c02AppRecords(c)
		defer func() { prevBonded, prevRecs = snap.power, recs }()
		if prevBonded == nil {
			return nil
		}
		total := int64(0)
		for _, p := range snap.power {
			total += p
		}
		for id, r := range recs {
			old := prevRecs[id]
			seen := map[string]bool{}
			for i, v := range r.votes {
				if seen[v] {
					return &engine.Violation{Property: "C02", Rule: "validator_recorded_twice_on_one_record", Site: "recordEventVote (application)", Detail: fmt.Sprintf("block %d (%s): record %s votes %v", c.Height, op, id, r.votes)}
				}
				seen[v] = true
				if i >= len(old.votes) {
					c02AppStats.Lock()
					c02AppStats.VotesSeen++
					c02AppStats.Unlock()
					if _, ok := prevBonded[v]; !ok {
						return &engine.Violation{Property: "C02", Rule: "vote_accepted_from_unbonded_validator", Site: "getSignerValidator (application)",
							Detail: fmt.Sprintf("[the application as wired in app.go, real x/staking] block %d (%s): the claim of %s was recorded on %s; the bonded validators when the block started were %v", c.Height, op, v, id, prevBonded)}
					}
				}
			}
			if r.accepted && !old.accepted {
				sum := int64(0)
				for v := range seen {
					sum += snap.power[v]
				}
				c02AppStats.Lock()
				c02AppStats.Applied++
				c02AppStats.Unlock()
				if 100*sum < 66*total {
					return &engine.Violation{Property: "C02", Rule: "applied_below_66_percent", Site: "TryEventVoteRecord (application)",
						Detail: fmt.Sprintf("[the application as wired in app.go, real x/staking] block %d (%s): event %s applied with distinct bonded voters holding %d of %d power; votes %v, bonded %v", c.Height, op, id, sum, total, r.votes, snap.power)}
				}
			}
		}
		return nil
	}
}
