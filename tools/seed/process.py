#!/usr/bin/env python3
"""process.py <Cxx> <mutX> <dest pkg dir> <test run regexp> <needs text> <check ids comma separated> [moddir]

Confirms a sub-agent's seeded change in its scratch worktree (/tmp/wt/<Cxx>): demo passes unchanged,
with the patch: builds, existing suite passes, demo fails.  Then applies the patch to /repo, runs the
named quick checks, reverts, and stores everything under /verif/seeded/<Cxx>-<mutX>/ with meta.json."""
import json, os, shutil, subprocess, sys, re, time

cid, mut, dest, run, needs, checks = sys.argv[1:7]
moddir = sys.argv[7] if len(sys.argv) > 7 else "module"
wt = f"/tmp/wt/{os.environ.get('WT_PREFIX', '')}{cid}"
rnd = os.environ.get("SEED_ROUND", "")
src = f"{wt}/SEEDED/{mut}"
out = f"/verif/seeded/{cid}-{rnd}{mut}"
v = subprocess.run(["/verif/tools/seed/verify.sh", wt, src, dest, run, moddir], stdout=subprocess.PIPE, stderr=subprocess.STDOUT, text=True, errors="replace").stdout
m = re.search(r"RESULT base_demo=(\w+) suite_with_patch=(\w+) demo_with_patch=(\w+)", v)
print(v[-1500:])
if not m:
    sys.exit("verification script failed")
base, suite, demo = m.groups()
ok = (base, suite, demo) == ("pass", "pass", "fail")
res = {}
if ok:
    runner = "/verif/tools/seed/run_lane.sh" if os.environ.get("SEED_REPO") else "/verif/tools/seed/run.sh"
    r = subprocess.run([runner, f"{src}/patch.diff"] + checks.split(","), stdout=subprocess.PIPE, stderr=subprocess.STDOUT, text=True, errors="replace", env=dict(os.environ, TIER=os.environ.get("TIER", "quick"))).stdout
    print(r)
    for line in r.splitlines():
        mm = re.match(r"(C\d\d) rc=(\d+) ?(.*)", line)
        if mm:
            res[mm.group(1)] = {"exit": int(mm.group(2)), "first_violation": mm.group(3)[:500]}
os.makedirs(out, exist_ok=True)
for f in os.listdir(src):
    if os.path.isdir(f"{src}/{f}"):
        shutil.copytree(f"{src}/{f}", f"{out}/{f}", dirs_exist_ok=True)
    else:
        shutil.copy(f"{src}/{f}", f"{out}/{f}")
meta = {
    "id": f"{cid}-{rnd}{mut}",
    "property": cid,
    "source": "independent sub-agent given only the property text and a scratch worktree",
    "needs_to_manifest": needs,
    "demonstration": {"copy_into": dest, "run": f"go test -vet=off -count=1 -run '{run}' .", "passes_on_unchanged_tree": base == "pass", "fails_with_patch": demo == "fail"},
    "existing_suite_passes_with_patch": suite == "pass",
    "confirmed": ok,
    "checks_run": res,
    "caught_by": sorted(k for k, x in res.items() if x["exit"] == 1),
    "tier": os.environ.get("TIER", "quick"),
    "date": time.strftime("%Y-%m-%d"),
}
json.dump(meta, open(f"{out}/meta.json", "w"), indent=1)
print("CONFIRMED" if ok else "NOT CONFIRMED", "caught_by=", meta["caught_by"])
