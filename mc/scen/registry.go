package scen

import (
	"fmt"
	"sort"
	"strings"
	"time"

	"verifmc/engine"
	"verifmc/hub"
)

type RunOpts struct {
	Tier    string
	Known   map[string]bool
	Workers int
}

type KnownOut struct {
	Count   int
	Example string
}

type Output struct {
	Known         map[string]*KnownOut
	Violations    []engine.Found
	InternalError string
	Evidence      map[string]interface{}
	Summary       string
}

type Runner struct {
	Run    func(RunOpts) Output
	Replay func(tier string, seed int, ops []engine.Op) []engine.Violation
}

var registry = map[string]func(tier string) *Runner{}

func Register(id string, f func(tier string) *Runner) { registry[id] = f }

// Registered lists the scenario ids.
func Registered() []string {
	var ids []string
	for id := range registry {
		ids = append(ids, id)
	}
	sort.Strings(ids)
	return ids
}

func Lookup(id, tier string) *Runner {
	f := registry[id]
	if f == nil {
		return nil
	}
	return f(tier)
}

// BFSRunner wraps a Spec + bounds into a Runner producing model_checking evidence.
func BFSRunner(mk func(tier string) (Spec, engine.Config, []string)) func(tier string) *Runner {
	return func(tier string) *Runner {
		return &Runner{
			Run: func(o RunOpts) Output {
				spec, cfg, assumptions := mk(o.Tier)
				cfg.Known = o.Known
				if o.Workers > 0 {
					cfg.Workers = o.Workers
				}
				res := runEngine(Adapter{Spec: spec}, cfg)
				return BFSOutput(res, cfg, assumptions)
			},
			Replay: func(tier string, seed int, ops []engine.Op) []engine.Violation {
				spec, _, _ := mk(tier)
				a := Adapter{Spec: spec}
				_, steps := a.Replay(a.NewWorker(), seed, ops)
				var vs []engine.Violation
				for _, s := range steps {
					vs = append(vs, s.Violations...)
				}
				return vs
			},
		}
	}
}

func BFSOutput(res *engine.Result, cfg engine.Config, assumptions []string) Output {
	out := Output{Known: map[string]*KnownOut{}, Violations: res.Violations, InternalError: res.InternalError}
	for sig, k := range res.Known {
		var p []string
		for _, o := range k.Path {
			p = append(p, o.String())
		}
		out.Known[sig] = &KnownOut{Count: k.Count, Example: strings.Join(p, ";") + " => " + k.Violation.Detail}
	}
	cov := map[string]interface{}{
		"states":                        res.States,
		"transitions":                   res.Transitions,
		"traces_validated_against_impl": res.Transitions,
		"straightline_replays_from_genesis": res.Replays,
		"max_depth":                     res.MaxDepth,
		"depth_bound":                   cfg.MaxDepth,
		"level_sizes":                   res.LevelSizes,
		"exhaustive":                    res.Exhaustive && res.InternalError == "",
		"cap_hit":                       res.CapHit,
		"nonvacuity_counters":           res.Counters,
		"transitions_per_op":            res.OpCounts,
		"pruned":                        res.Pruned,
		"distinct_observed_outcomes":    res.DistinctObs,
		"stuck_transitions":             res.Stuck,
		"samples":                       res.Samples,
		"explanation": "every transition is a call into the real mhub2/oracle keepers on a restored snapshot of the real KV stores; traces_validated_against_impl counts those real executions; straightline_replays_from_genesis counts leaf paths re-executed without snapshot/restore and compared by state digest",
	}
	if len(res.Samples) == 0 {
		cov["samples"] = [][]string{{"<no path: search stopped at the seed states>"}}
	}
	var kn []string
	for s, k := range res.Known {
		kn = append(kn, fmt.Sprintf("%s x%d", s, k.Count))
	}
	sort.Strings(kn)
	cov["known_findings_hit"] = kn
	out.Evidence = map[string]interface{}{
		"level":       "model_checking",
		"coverage":    cov,
		"assumptions": assumptions,
	}
	out.Summary = fmt.Sprintf("states=%d transitions=%d depth=%d/%d exhaustive=%v %s counters=%v known=%d search=%s",
		res.States, res.Transitions, res.MaxDepth, cfg.MaxDepth, res.Exhaustive, res.CapHit, res.Counters, len(res.Known), res.Wall.Round(time.Millisecond))
	return out
}

func init() {
	Register("C03", MultiRunner(func(tier string) ([]MultiCase, []string) {
		cfg := engine.Config{MaxDepth: 6, Deadline: 60 * time.Second, ReplayLeaf: 50}
		lcfg := engine.Config{MaxDepth: 5, Deadline: 60 * time.Second, ReplayLeaf: 50}
		if tier == "thorough" {
			cfg = engine.Config{MaxDepth: 9, Deadline: 15 * time.Minute, ReplayLeaf: 500}
			lcfg = engine.Config{MaxDepth: 8, Deadline: 10 * time.Minute, ReplayLeaf: 500}
		}
		// a validator that leaves for good (x/staking deletes its record and says so through the staking hooks app.go
		// registers for the mhub2 keeper) and is created again by the same operator is still the same validator
		lv := NewC03(tier)
		lv.Leave = true
		lv.Nonces = 2
		// the same on Minter, whose events are numbered by the connectors (there is no contract that counts them)
		mi := NewC03(tier)
		mi.Chain = "minter"
		mcfg := cfg
		mcfg.MaxDepth = cfg.MaxDepth - 1
		return []MultiCase{{Name: "three bonded validators", Spec: NewC03(tier), Cfg: cfg},
				{Name: "three bonded validators, chain minter", Spec: mi, Cfg: mcfg},
				{Name: "validator A leaves (record removed) and is created again", Spec: lv, Cfg: lcfg}}, []string{
				"3 bonded validators of equal power 10 (threshold floor(66*30/100)=19: two votes needed), one chain (ethereum), deposit events only",
				"event alphabet: nonces 1..3 (1..2 in the second case), two conflicting variants per nonce; amounts are distinct powers of 4 so that the balance identifies the multiset of applied events",
				"staking is a scripted table answering the calls the module makes; removal and re-creation of a validator fire the keeper's staking hooks as x/staking does",
			}
	}))
}

// MultiRunner runs several BFS configurations of one property and aggregates them.
type MultiCase struct {
	Name string
	Spec Spec
	Cfg  engine.Config
}

// runEngine runs the search; a module InitGenesis panic on the scenario's own (admissible) genesis is a
// C15 finding (a chain cannot be initialised from that state) and an internal error for every other check.
func runEngine(sc engine.Scenario, cfg engine.Config) (res *engine.Result) {
	defer func() {
		if r := recover(); r != nil {
			gp, ok := r.(hub.GenesisPanic)
			if !ok {
				panic(r)
			}
			res = &engine.Result{Scenario: sc.ID(), Counters: map[string]int{}, OpCounts: map[string]int{}, Pruned: map[string]int{}, Known: map[string]*engine.KnownHit{}}
			if sc.ID() == "C15" {
				res.Violations = []engine.Found{{Violation: engine.Violation{Property: "C15", Rule: "genesis_cannot_be_initialised", Site: "InitGenesis",
					Detail: fmt.Sprintf("InitGenesis panics on an admissible genesis state (as exported from a chain in that state): %v", gp.Value)}, Reproduced: 5}}
				res.Samples = [][]string{{"<InitGenesis of the scenario genesis>"}}
				res.States, res.Transitions = 1, 1
			} else {
				res.InternalError = "the chain cannot be started: " + gp.Error()
			}
		}
	}()
	return engine.Run(sc, cfg)
}

type genCase struct {
	Name string
	Sc   engine.Scenario
	Cfg  engine.Config
}

func multiRunnerGeneric(mk func(tier string) ([]genCase, []string)) func(tier string) *Runner {
	return func(tier string) *Runner {
		return &Runner{
			Run: func(o RunOpts) Output {
				cases, assumptions := mk(o.Tier)
				agg := Output{Known: map[string]*KnownOut{}}
				tot := map[string]interface{}{}
				var per []map[string]interface{}
				states, trans, replays, exhaustive := 0, 0, 0, true
				counters := map[string]int{}
				var samples [][]string
				deadlineAll := time.Now()
				_ = deadlineAll
				for _, c := range cases {
					cfg := c.Cfg
					cfg.Known = o.Known
					if o.Workers > 0 {
						cfg.Workers = o.Workers
					}
					res := runEngine(c.Sc, cfg)
					one := BFSOutput(res, cfg, nil)
					states += res.States
					trans += res.Transitions
					replays += res.Replays
					exhaustive = exhaustive && res.Exhaustive && res.InternalError == ""
					for k, v := range res.Counters {
						counters[k] += v
					}
					for k, v := range one.Known {
						if agg.Known[k] == nil {
							agg.Known[k] = &KnownOut{Example: "[" + c.Name + "] " + v.Example}
						}
						agg.Known[k].Count += v.Count
					}
					if len(res.Samples) > 0 && len(samples) < 4 {
						samples = append(samples, append([]string{"[" + c.Name + "]"}, res.Samples[0]...))
					}
					per = append(per, map[string]interface{}{"case": c.Name, "states": res.States, "transitions": res.Transitions, "max_depth": res.MaxDepth,
						"depth_bound": cfg.MaxDepth, "exhaustive": res.Exhaustive, "cap_hit": res.CapHit, "counters": res.Counters, "distinct_outcomes": res.DistinctObs})
					if res.InternalError != "" && agg.InternalError == "" {
						agg.InternalError = "[" + c.Name + "] " + res.InternalError
					}
					if len(res.Violations) > 0 {
						for _, v := range res.Violations {
							v.Violation.Detail = "[" + c.Name + "] " + v.Violation.Detail
							agg.Violations = append(agg.Violations, v)
						}
						break
					}
				}
				tot["states"] = states
				tot["transitions"] = trans
				tot["traces_validated_against_impl"] = trans
				tot["straightline_replays_from_genesis"] = replays
				tot["exhaustive"] = exhaustive
				tot["nonvacuity_counters"] = counters
				tot["cases"] = per
				if len(samples) == 0 {
					samples = [][]string{{"<none>"}}
				}
				tot["samples"] = samples
				tot["explanation"] = "one explicit-state BFS per configuration listed in cases; every transition is an execution of the real keepers"
				agg.Evidence = map[string]interface{}{"level": "model_checking", "coverage": tot, "assumptions": assumptions}
				agg.Summary = fmt.Sprintf("cases=%d states=%d transitions=%d exhaustive=%v counters=%v known=%d", len(per), states, trans, exhaustive, counters, len(agg.Known))
				return agg
			},
			Replay: func(tier string, seed int, ops []engine.Op) []engine.Violation {
				cases, _ := mk(tier)
				var vs []engine.Violation
				for _, c := range cases {
					a := c.Sc
					func() {
						defer func() { recover() }()
						_, steps := a.Replay(a.NewWorker(), seed, ops)
						for _, s := range steps {
							vs = append(vs, s.Violations...)
						}
					}()
					if len(vs) > 0 {
						break
					}
				}
				return vs
			},
		}
	}
}


// MultiRunner runs several BFS configurations (hub-instance Specs) of one property and aggregates them.
func MultiRunner(mk func(tier string) ([]MultiCase, []string)) func(tier string) *Runner {
	return multiRunnerGeneric(func(tier string) ([]genCase, []string) {
		cases, as := mk(tier)
		var out []genCase
		for _, c := range cases {
			out = append(out, genCase{c.Name, Adapter{Spec: c.Spec}, c.Cfg})
		}
		return out, as
	})
}

// MultiRunner0 is MultiRunner for scenarios that implement engine.Scenario themselves.
func MultiRunner0(mk func(tier string) ([]engine.Scenario, []string, []engine.Config, []string)) func(tier string) *Runner {
	return multiRunnerGeneric(func(tier string) ([]genCase, []string) {
		scs, names, cfgs, as := mk(tier)
		var out []genCase
		for i := range scs {
			out = append(out, genCase{names[i], scs[i], cfgs[i]})
		}
		return out, as
	})
}

var PowerVectors = [][]int64{{10, 10, 10}, {1, 1, 1}, {1, 1}, {34, 33, 33}, {50, 30, 20}, {50, 25, 25}, {66, 34}, {65, 35}, {2, 1, 1, 1}, {10}}

func init() {
	c02base := MultiRunner(func(tier string) ([]MultiCase, []string) {
		var cases []MultiCase
		depth, dl := 4, 40*time.Second
		if tier == "thorough" {
			depth, dl = 6, 3*time.Minute
		}
		for _, pv := range PowerVectors {
			cases = append(cases, MultiCase{Name: fmt.Sprint("powers=", pv), Spec: NewC02(pv, 2, false), Cfg: engine.Config{MaxDepth: depth + 1, Deadline: dl, ReplayLeaf: 10}})
		}
		// powers changing between vote and tally, unbonding, an unbonded validator and its orchestrator voting
		cases = append(cases, MultiCase{Name: "powers=[10 10 10 unbonded]+staking ops", Spec: NewC02([]int64{10, 10, 10, 0}, 1, true), Cfg: engine.Config{MaxDepth: depth, Deadline: 2 * dl, ReplayLeaf: 10}})
		cases = append(cases, MultiCase{Name: "powers=[50 30 20]+staking ops", Spec: NewC02([]int64{50, 30, 20}, 1, true), Cfg: engine.Config{MaxDepth: depth, Deadline: 2 * dl, ReplayLeaf: 10}})
		tn := NewC02([]int64{10, 10, 10}, 1, false)
		tn.TopNonce = true
		cases = append(cases, MultiCase{Name: "powers=[10 10 10], validator A may claim the nonce 2^64-1", Spec: tn, Cfg: engine.Config{MaxDepth: depth, Deadline: dl, ReplayLeaf: 10}})
		// the quorum is two thirds of ALL bonded power: validators that registered no keys for the chain count in the total
		for _, pv := range [][]int64{{20, 20, 60}, {30, 30, 40}, {33, 33, 34}} {
			kl := NewC02(pv, 1, false)
			kl.Keyless = []int{2}
			cases = append(cases, MultiCase{Name: fmt.Sprint("powers=", pv, ", the last validator without keys for the chain"), Spec: kl, Cfg: engine.Config{MaxDepth: depth, Deadline: dl, ReplayLeaf: 10}})
		}
		return cases, []string{
			"deposit events only (effects are C03's matter), one chain, 2 event nonces x 2 conflicting variants; signer kinds: validator account, its orchestrator, a stranger account",
			"staking is a scripted table; SetPower/Unbond/Rebond may happen between any two transactions (over-approximates x/staking, whose changes land at its EndBlocker, which runs before mhub2's)",
			"oracle is evaluated with exact integers: 100*sum(power of distinct bonded voters at tally) >= 66*total",
			"second part: the application as wired in app.go (real x/staking, x/slashing, x/evidence) explored over application hashes like C05's second part; after every block the vote records of ethereum are read from the committed store: a vote that appeared in the block comes from a validator that was bonded when the block started, nobody is recorded twice, an event applied in the block has distinct voters with at least 66% of the bonded power the block left behind",
		}
	})
	Register("C02", func(tier string) *Runner {
		b := c02base(tier)
		return &Runner{Replay: func(t string, seed int, ops []engine.Op) []engine.Violation {
			if len(ops) > 0 && strings.HasPrefix(ops[0].Kind, "App:") {
				return appReplay(ops, c02AppObserver)
			}
			return b.Replay(t, seed, ops)
		}, Run: func(o RunOpts) Output {
			out := b.Run(o)
			if len(out.Violations) > 0 || out.InternalError != "" {
				return out
			}
			cov, found := appSearch(o.Tier, o.Workers, c02AppObserver)
			cov["application_votes_checked"] = c02AppStats.VotesSeen
			cov["application_events_applied_and_checked"] = c02AppStats.Applied
			if c, ok := out.Evidence["coverage"].(map[string]interface{}); ok {
				for k, v := range cov {
					c[k] = v
				}
			}
			if found != nil {
				n := 0
				for i := 0; i < 5; i++ {
					if len(appReplay(found.Path, c02AppObserver)) > 0 {
						n++
					}
				}
				found.Reproduced = n
				if n == 5 {
					out.Violations = append(out.Violations, *found)
				} else {
					out.InternalError = fmt.Sprintf("application path %v failed once and %d of 5 times when replayed", found.Path, n)
				}
			}
			out.Summary += fmt.Sprintf(" app_transitions=%v app_votes_checked=%v app_events_applied=%v", cov["application_transitions"], cov["application_votes_checked"], cov["application_events_applied_and_checked"])
			return out
		}}
	})
}
