package scen

import (
	"time"
	"fmt"
	"math/big"
	"sort"
	"strings"

	sdk "github.com/cosmos/cosmos-sdk/types"

	"verifmc/engine"
	"verifmc/hub"

	mhubtypes "github.com/MinterTeam/mhub2/module/x/mhub2/types"
	oracletypes "github.com/MinterTeam/mhub2/module/x/oracle/types"
)

// Bridge is the closed-system scenario family shared by C01, C04, C10, C12, C13:
// users (send / cancel / request-batch), external chains (deposits locked in a
// custody ledger, batch execution by a relayer, external block height), honest
// validators that turn external events into claims, and the block clock. The
// property id selects the alphabet and which oracles raise alarms ("one alarm,
// one property").

type TokenRow struct {
	Denom, Chain, ExtID string
	Dec                 uint64
	CommissionBP        int64 // basis points of 1 (100 = 1%)
}

type BridgeCfg struct {
	Prop     string
	Tokens   []TokenRow
	Powers   []int64
	Users    int
	Amounts  []int64 // hub-unit amounts for Send
	Fees     []int64
	DepAmts  []int64 // external-unit amounts for deposits
	DepFees  []int64
	DepDests []string // "hub" or a chain id
	SendChains []string
	SendDenoms []string
	DepChains  []string
	Ops      map[string]bool // enabled op kinds
	Timeout  int64           // OutgoingTxTimeout (seconds) used by Next(big)
	Seeds    [][]engine.Op
	MaxCancelID int64
	NoPrices bool
	NoPriceFor []string // oracle price names missing from genesis (the others are present)
	ExecFeePaid int64   // gas cost (wei) the relayer reports for an executed batch; 0 = 3
	ExecFeePaidStr string // ... as a decimal string (values beyond int64), "" = ExecFeePaid
	RcptUpperPrefix bool // withdrawals name their recipient with the prefix 0X (admitted like 0x)
	ParamsMod func(p *mhubtypes.Params) // applied to the genesis params last
	ParamChanges [][2]string // governance parameter changes (key, JSON value) of the mhub2 subspace offered as op Param(i)
	DepUnlisted bool // deposits may name a destination chain on which the token is not listed (the deposit then fails as a whole)
	PayoutsMayFail bool // the configuration gives a reason for an executed batch's payouts to fail (token row gone, no Minter row)
	GenesisMod func(g *hub.Genesis) // applied to the genesis last (a hand-written genesis file)
	GenesisSeq map[string]uint64    // outgoing sequence counters of the chain the genesis file was taken from
	Repoint  []int // token rows whose external id a governance proposal may change (op Repoint; ethereum / bsc rows)
	Relist   []int // token rows a governance TokenInfosChangeProposal may remove from / put back on the list (op Relist)
}

type Bridge struct {
	Cfg  BridgeCfg
	Vals []hub.Validator
	Usr  []sdk.AccAddress
}

func NewBridge(cfg BridgeCfg) *Bridge {
	b := &Bridge{Cfg: cfg}
	for i := range cfg.Powers {
		b.Vals = append(b.Vals, hub.NewValidator(string(rune('A'+i))))
	}
	for i := 0; i < cfg.Users; i++ {
		b.Usr = append(b.Usr, hub.User(fmt.Sprintf("u%d", i+1)))
	}
	return b
}

func (b *Bridge) ID() string             { return b.Cfg.Prop }
func (b *Bridge) Setup(in *hub.Instance) {}
func (b *Bridge) SeedPaths() [][]engine.Op {
	if len(b.Cfg.Seeds) == 0 {
		return [][]engine.Op{{}}
	}
	return b.Cfg.Seeds
}

const bridgeInitBal = 1_000_000_000_000_000_000

func (b *Bridge) Genesis() hub.Genesis {
	bal := sdk.Coins{}
	seen := map[string]bool{}
	for _, t := range b.Cfg.Tokens {
		if !seen[t.Denom] {
			seen[t.Denom] = true
			bal = bal.Add(sdk.NewInt64Coin(t.Denom, bridgeInitBal))
		}
	}
	g := StdGenesis(b.Vals, b.Cfg.Powers, b.Usr, bal)
	var infos []*mhubtypes.TokenInfo
	for i, t := range b.Cfg.Tokens {
		infos = append(infos, &mhubtypes.TokenInfo{Id: uint64(i + 1), Denom: t.Denom, ChainId: t.Chain, ExternalTokenId: t.ExtID,
			ExternalDecimals: t.Dec, Commission: sdk.NewDec(t.CommissionBP).QuoInt64(10000)})
	}
	g.Hub.TokenInfos = &mhubtypes.TokenInfos{TokenInfos: infos}
	if !b.Cfg.NoPrices {
		var pl []*oracletypes.Price
		for i, n := range []string{"eth", "ethereum/gas", "bnb", "bsc/gas", "hub"} {
			skip := false
			for _, x := range b.Cfg.NoPriceFor {
				skip = skip || x == n
			}
			if !skip {
				pl = append(pl, &oracletypes.Price{Name: n, Value: sdk.NewDec(int64(3 + i))})
			}
		}
		g.Oracle.Prices = &oracletypes.Prices{List: pl}
	}
	p := *g.Hub.Params
	if b.Cfg.Timeout > 0 {
		p.OutgoingTxTimeout = uint64(b.Cfg.Timeout) * 1000
	}
	if b.Cfg.ParamsMod != nil {
		b.Cfg.ParamsMod(&p)
		// per-chain genesis state only for the chains the parameters configure (the export walks the configured chains)
		var keep []*mhubtypes.ExternalState
		for _, es := range g.Hub.ExternalStates {
			for _, c := range p.Chains {
				if c == es.ChainId {
					keep = append(keep, es)
				}
			}
		}
		g.Hub.ExternalStates = keep
	}
	g.Hub.Params = &p
	if b.Cfg.GenesisMod != nil {
		b.Cfg.GenesisMod(&g)
	}
	return g
}

func (b *Bridge) token(chain, denom string) *TokenRow {
	for i := range b.Cfg.Tokens {
		if b.Cfg.Tokens[i].Chain == chain && b.Cfg.Tokens[i].Denom == denom {
			return &b.Cfg.Tokens[i]
		}
	}
	return nil
}
func (b *Bridge) tokenByExt(chain, ext string) *TokenRow {
	for i := range b.Cfg.Tokens {
		if b.Cfg.Tokens[i].Chain == chain && b.Cfg.Tokens[i].ExtID == ext {
			return &b.Cfg.Tokens[i]
		}
	}
	// the external id a Repoint proposal gives a row (same token, same decimals, new contract), and the second contract a
	// Dual proposal lists for a denom next to the first
	for i := range b.Cfg.Tokens {
		if t := &b.Cfg.Tokens[i]; t.Chain == chain && (strings.EqualFold(hub.HexAddr("migrated-"+t.Chain+"|"+t.Denom), ext) || strings.EqualFold(hub.HexAddr("second-"+t.Chain+"|"+t.Denom), ext)) {
			return t
		}
	}
	return nil
}

// ---------------------------------------------------------------------------------------------
// ghost

type xfer struct {
	Chain   string
	ID      uint64
	Sender  string
	TxHash  string
	Denom   string
	Taken   string // hub units debited (amount+fee+commission), decimal string
	Amt, Fee, Com string // recorded external units
	Origin  string // "hub" or originating chain
	OriginAddr string
	Where   string // "pool" | "batch:<token>:<nonce>" | "executed" | "refunded"
	Created int64
	System  bool // created by the module itself (#fee, #commission, refund re-send)
}

type extBatch struct { // batch executed on the external chain, hub has not applied the event yet
	Chain, Token string
	Nonce        uint64
}

type bridgeGhost struct {
	EvNonce   map[string]uint64   // last event nonce emitted by each external chain
	ExtHeight map[string]uint64   // true external height
	Custody   map[string]*big.Int // chain|ext token -> locked external units
	LastExec  map[string]uint64   // chain|token -> last executed batch nonce on the external chain
	Xfers     map[string]*xfer    // chain/id -> transfer registry
	ExecUnobs []extBatch
	BatchSeen map[string]bool // chain|token|nonce ever created
	BatchSeq  map[string]uint64 // ... and the outgoing sequence it was created with (a batch is identified by both)
	LastBatchNonce map[string]uint64
	LastSeq   map[string]uint64
	ImportedLow []string // imported pending batches whose new sequence number is not above the exported counter (reported by the first step)
	Pending   []pendingEvent // events voted in the open block, applied at its EndBlock
	Debt      map[string]string // denom -> rational string of recorded (known-finding) unbacked amount
	TimedOutOK map[string]bool // batches whose timeout the hub may legitimately act on
	// Withdrawn: batches the hub withdrew without an execution event while the external chain would
	// still accept them (a relayer holds their signatures). Empty on code that satisfies C13.
	Withdrawn map[string]*wbatch
	// ObsHeight: reference "observed external height" = height of the last event of the chain that was
	// applied with a quorum (never what a minority merely claimed).
	// LagA: validator A's orchestrator is down (it does not vote); the others still reach the quorum
	LagA bool
	// RefundedHash: tx hashes whose reported status has been REFUNDED (it is final)
	RefundedHash map[string]bool
	ObsHeight map[string]uint64
	// FakeAt: chain -> event nonce for which the Byzantine validator already cast its far-ahead claim
	FakeAt map[string]uint64
	// Delisted: "chain|denom" rows currently removed from the token list by governance
	Delisted map[string]bool
}

// wbatch is what a relayer keeps of a batch once offered for signing.
type wbatch struct {
	Chain, Token   string
	Nonce, Timeout uint64
	Amts           []string // amounts paid out of custody (cold-storage moves excluded)
	IDs            []uint64
}

func cloneW(m map[string]*wbatch) map[string]*wbatch {
	o := map[string]*wbatch{}
	for k, v := range m {
		c := *v
		o[k] = &c
	}
	return o
}

// stillExecutable: Hub2.sol submitBatch accepts a batch whose nonce is newer than the last executed one of
// its token while block.number < timeout.
func (g *bridgeGhost) stillExecutable(w *wbatch) bool {
	return w.Nonce > g.LastExec[w.Chain+"|"+w.Token] && g.ExtHeight[w.Chain] < w.Timeout
}

func (g *bridgeGhost) withdrawnKeys() []string {
	var ks []string
	for k, w := range g.Withdrawn {
		if g.stillExecutable(w) {
			ks = append(ks, k)
		}
	}
	sort.Strings(ks)
	return ks
}

type pendingEvent struct {
	Chain string
	Kind  string // dep-hub, dep-chain, exec
	Denom string
	Locked string // hub-unit rational of what this deposit locked
	Recv  string
	Token string
	Nonce uint64
	EvNonce, Height uint64 // event nonce and external height carried by the claim
	TxHash          string
}

func cloneBig(m map[string]*big.Int) map[string]*big.Int {
	o := map[string]*big.Int{}
	for k, v := range m {
		o[k] = new(big.Int).Set(v)
	}
	return o
}
func cloneU(m map[string]uint64) map[string]uint64 {
	o := map[string]uint64{}
	for k, v := range m {
		o[k] = v
	}
	return o
}
func cloneB(m map[string]bool) map[string]bool {
	o := map[string]bool{}
	for k, v := range m {
		o[k] = v
	}
	return o
}
func cloneS(m map[string]string) map[string]string {
	o := map[string]string{}
	for k, v := range m {
		o[k] = v
	}
	return o
}

func (g *bridgeGhost) Clone() Ghost {
	n := &bridgeGhost{EvNonce: cloneU(g.EvNonce), ExtHeight: cloneU(g.ExtHeight), Custody: cloneBig(g.Custody), LastExec: cloneU(g.LastExec),
		Xfers: map[string]*xfer{}, ExecUnobs: append([]extBatch(nil), g.ExecUnobs...), BatchSeen: cloneB(g.BatchSeen), BatchSeq: cloneU(g.BatchSeq),
		LastBatchNonce: cloneU(g.LastBatchNonce), LastSeq: cloneU(g.LastSeq), ImportedLow: g.ImportedLow, Pending: append([]pendingEvent(nil), g.Pending...),
		Debt: cloneS(g.Debt), TimedOutOK: cloneB(g.TimedOutOK), Withdrawn: cloneW(g.Withdrawn), ObsHeight: cloneU(g.ObsHeight), FakeAt: cloneU(g.FakeAt), RefundedHash: cloneB(g.RefundedHash), LagA: g.LagA, Delisted: cloneB(g.Delisted)}
	for k, v := range g.Xfers {
		c := *v
		n.Xfers[k] = &c
	}
	return n
}

func canonMap(m interface{}) string {
	switch mm := m.(type) {
	case map[string]uint64:
		var ks []string
		for k := range mm {
			ks = append(ks, k)
		}
		sort.Strings(ks)
		var sb strings.Builder
		for _, k := range ks {
			fmt.Fprintf(&sb, "%s=%d,", k, mm[k])
		}
		return sb.String()
	case map[string]*big.Int:
		var ks []string
		for k := range mm {
			ks = append(ks, k)
		}
		sort.Strings(ks)
		var sb strings.Builder
		for _, k := range ks {
			fmt.Fprintf(&sb, "%s=%s,", k, mm[k])
		}
		return sb.String()
	case map[string]string:
		var ks []string
		for k := range mm {
			ks = append(ks, k)
		}
		sort.Strings(ks)
		var sb strings.Builder
		for _, k := range ks {
			fmt.Fprintf(&sb, "%s=%s,", k, mm[k])
		}
		return sb.String()
	case map[string]bool:
		var ks []string
		for k := range mm {
			if mm[k] {
				ks = append(ks, k)
			}
		}
		sort.Strings(ks)
		return strings.Join(ks, ",")
	}
	return "?"
}

func (g *bridgeGhost) Canon() string {
	var xs []string
	for k, x := range g.Xfers {
		xs = append(xs, fmt.Sprintf("%s:%s:%s:%s:%s", k, x.Where, x.Taken, x.Sender, x.Origin))
	}
	sort.Strings(xs)
	return strings.Join([]string{canonMap(g.EvNonce), canonMap(g.ExtHeight), canonMap(g.Custody), canonMap(g.LastExec),
		strings.Join(xs, ";"), fmt.Sprint(g.ExecUnobs), fmt.Sprint(g.Pending), canonMap(g.Debt), canonMap(g.TimedOutOK), strings.Join(g.withdrawnKeys(), ","), canonMap(g.ObsHeight), canonMap(g.FakeAt), canonMap(g.RefundedHash), fmt.Sprint(g.LagA), canonMap(g.Delisted)}, "#")
}

func (b *Bridge) NewGhost(in *hub.Instance) Ghost {
	g := &bridgeGhost{EvNonce: map[string]uint64{}, ExtHeight: map[string]uint64{}, Custody: map[string]*big.Int{}, LastExec: map[string]uint64{},
		Xfers: map[string]*xfer{}, BatchSeen: map[string]bool{}, BatchSeq: map[string]uint64{}, LastBatchNonce: map[string]uint64{}, LastSeq: map[string]uint64{},
		Debt: map[string]string{}, TimedOutOK: map[string]bool{}, Withdrawn: map[string]*wbatch{}, ObsHeight: map[string]uint64{}, FakeAt: map[string]uint64{}, RefundedHash: map[string]bool{}, Delisted: map[string]bool{}}
	for _, c := range AllExtChains {
		g.ExtHeight[c] = 1000
	}
	// genesis supply is backed by custody on the first chain that lists the denom
	seen := map[string]bool{}
	for _, t := range b.Cfg.Tokens {
		if seen[t.Denom] {
			continue
		}
		seen[t.Denom] = true
		supply := in.Bank.GetSupply(in.Ctx(), t.Denom).Amount.BigInt()
		// convert hub units to external units exactly (choose a chain with dec >= 18 or exact divisibility)
		ext := new(big.Int).Set(supply)
		if t.Dec >= 18 {
			ext.Mul(ext, pow10(int64(t.Dec)-18))
		} else {
			// round up so that custody covers the genesis supply
			d := pow10(18 - int64(t.Dec))
			ext.Add(ext, new(big.Int).Sub(d, big.NewInt(1)))
			ext.Div(ext, d)
		}
		g.Custody[t.Chain+"|"+t.ExtID] = ext
	}
	// transfers that came with the genesis file wait in their pools: they are transfers like any other
	for ch, l := range b.view(in).Pool {
		for _, e := range l {
			den := ""
			for _, t := range b.Cfg.Tokens {
				if t.Chain == ch && strings.EqualFold(t.ExtID, e.Token.ExternalTokenId) {
					den = t.Denom
				}
			}
			taken := refConvert(e.Token.Amount.Add(e.Fee.Amount).Add(e.ValCommission.Amount), b.token(ch, den).Dec, 18)
			g.Xfers[fmt.Sprintf("%s/%d", ch, e.Id)] = &xfer{Chain: ch, ID: e.Id, Sender: e.Sender, TxHash: e.TxHash, Denom: den, Taken: taken.String(),
				Amt: e.Token.Amount.String(), Fee: e.Fee.Amount.String(), Com: e.ValCommission.Amount.String(), Origin: "hub", OriginAddr: e.Sender, Where: "pool", Created: in.Time}
		}
	}
	for _, c := range AllExtChains {
		g.LastSeq[c] = outgoingSeq(in, c)
		if s, ok := b.Cfg.GenesisSeq[c]; ok {
			g.LastSeq[c] = s // what the imported pending transactions must stay above
		}
		// batches that came with the genesis file were not built here (no selection to judge); the sequence numbers InitGenesis gives
		// them are judged by the first step's oracle
		in.Hub.IterateOutgoingTxsByType(in.Ctx(), mhubtypes.ChainID(c), mhubtypes.BatchTxPrefixByte, func(_ []byte, o mhubtypes.OutgoingTx) bool {
			bt := o.(*mhubtypes.BatchTx)
			k := batchKey(c, bt)
			g.BatchSeen[k], g.BatchSeq[k] = true, bt.Sequence
			if bt.BatchNonce > g.LastBatchNonce[c] {
				g.LastBatchNonce[c] = bt.BatchNonce
			}
			if bt.Sequence <= g.LastSeq[c] {
				g.ImportedLow = append(g.ImportedLow, fmt.Sprintf("batch %s carries sequence %d, the chain's outgoing sequence counter stood at %d when the genesis file was written", k, bt.Sequence, g.LastSeq[c]))
			}
			return false
		})
	}
	return g
}

func pow10(n int64) *big.Int { return new(big.Int).Exp(big.NewInt(10), big.NewInt(n), nil) }

// toHub converts external units to an exact rational number of hub units.
func toHubRat(ext *big.Int, dec uint64) *big.Rat {
	r := new(big.Rat).SetInt(ext)
	if dec >= 18 {
		return r.Quo(r, new(big.Rat).SetInt(pow10(int64(dec)-18)))
	}
	return r.Mul(r, new(big.Rat).SetInt(pow10(18-int64(dec))))
}

// ---------------------------------------------------------------------------------------------
// view of the real store

type view struct {
	Pool    map[string][]*mhubtypes.SendToExternal // chain -> entries (store order, reverse iterator)
	Batches map[string][]*mhubtypes.BatchTx
	Supply  map[string]sdk.Int
}

func (b *Bridge) view(in *hub.Instance) *view {
	ctx := in.Ctx()
	v := &view{Pool: map[string][]*mhubtypes.SendToExternal{}, Batches: map[string][]*mhubtypes.BatchTx{}, Supply: map[string]sdk.Int{}}
	for _, c := range AllExtChains {
		in.Hub.IterateUnbatchedSendToExternals(ctx, mhubtypes.ChainID(c), func(s *mhubtypes.SendToExternal) bool {
			v.Pool[c] = append(v.Pool[c], s)
			return false
		})
		in.Hub.IterateOutgoingTxsByType(ctx, mhubtypes.ChainID(c), mhubtypes.BatchTxPrefixByte, func(_ []byte, o mhubtypes.OutgoingTx) bool {
			v.Batches[c] = append(v.Batches[c], o.(*mhubtypes.BatchTx))
			return false
		})
	}
	seen := map[string]bool{}
	for _, t := range b.Cfg.Tokens {
		if !seen[t.Denom] {
			seen[t.Denom] = true
			v.Supply[t.Denom] = in.Bank.GetSupply(ctx, t.Denom).Amount
		}
	}
	return v
}

// ---------------------------------------------------------------------------------------------
// alphabet

func (b *Bridge) Ops(s *HState) []engine.Op {
	g := s.G.(*bridgeGhost)
	c := b.Cfg
	on := func(k string) bool { return c.Ops[k] }
	var ops []engine.Op
	if on("Next") {
		ops = append(ops, engine.OpN("Next", 5))
	}
	if on("Send") {
		for u := 0; u < len(b.Usr); u++ {
			for _, ch := range c.SendChains {
				for _, d := range c.SendDenoms {
					if b.token(ch, d) == nil {
						continue
					}
					for ai := range c.Amounts {
						for fi := range c.Fees {
							ops = append(ops, engine.OpN("Send", ch, d, u, ai, fi))
						}
					}
				}
			}
		}
	}
	if on("Send2") {
		// two withdrawals in ONE transaction (one tx hash): the lower-fee one and the higher-fee one
		ops = append(ops, engine.OpN("Send2", c.SendChains[0], c.SendDenoms[0]))
	}
	if on("ReqBatch") {
		for _, ch := range c.SendChains {
			for _, d := range c.SendDenoms {
				if b.token(ch, d) != nil {
					ops = append(ops, engine.OpN("ReqBatch", ch, d))
				}
			}
		}
	}
	if on("Cancel") {
		// every known id, by every user (wrong sender included), plus one unknown id
		type k struct {
			ch string
			id uint64
		}
		var ids []k
		for _, x := range g.Xfers {
			if x.System && !on("CancelSystem") {
				continue
			}
			ids = append(ids, k{x.Chain, x.ID})
		}
		sort.Slice(ids, func(i, j int) bool {
			if ids[i].ch != ids[j].ch {
				return ids[i].ch < ids[j].ch
			}
			return ids[i].id < ids[j].id
		})
		for _, id := range ids {
			for u := range b.Usr {
				ops = append(ops, engine.OpN("Cancel", id.ch, u, id.id))
			}
			if on("CancelUpper") {
				// the owner's cancel with the signer spelled in the upper-case form of bech32 (the same account)
				for u := range b.Usr {
					if x := g.Xfers[fmt.Sprintf("%s/%d", id.ch, id.id)]; x != nil && x.Sender == b.Usr[u].String() {
						ops = append(ops, engine.OpN("CancelUpper", id.ch, u, id.id))
					}
				}
			}
			if on("CancelWrongChain") {
				for _, ch := range c.SendChains {
					if ch != id.ch {
						ops = append(ops, engine.OpN("Cancel", ch, 0, id.id))
					}
				}
			}
		}
		if len(c.SendChains) > 0 {
			ops = append(ops, engine.OpN("Cancel", c.SendChains[0], 0, 99))
		}
	}
	if on("Deposit") {
		for _, ch := range c.DepChains {
			for _, d := range c.SendDenoms {
				if b.token(ch, d) == nil {
					continue
				}
				for ai := range c.DepAmts {
					for fi := range c.DepFees {
						for _, dest := range c.DepDests {
							if dest == ch {
								continue
							}
							if dest != "hub" && b.token(dest, d) == nil && !c.DepUnlisted {
								continue
							}
							ops = append(ops, engine.OpN("Deposit", ch, d, dest, ai, fi))
						}
					}
				}
			}
		}
	}
	if on("Exec") {
		// relayer executes any pending batch the external chain would accept
		for _, pb := range b.pendingBatches(s) {
			ops = append(ops, engine.OpN("Exec", pb.Chain, pb.Token, pb.Nonce))
		}
		// ... and any batch the hub has withdrawn that the external chain would still accept
		for _, k := range g.withdrawnKeys() {
			w := g.Withdrawn[k]
			ops = append(ops, engine.OpN("ExecOld", w.Chain, w.Token, w.Nonce))
		}
	}
	if on("FakeHeight") {
		// one validator (a third of the power, below quorum) claims a far-ahead external height for the next nonce
		for _, ch := range c.DepChains {
			if g.FakeAt[ch] != g.EvNonce[ch]+1 {
				ops = append(ops, engine.OpN("FakeHeight", ch))
			}
		}
	}
	if on("ExtAdvance") {
		for _, ch := range c.DepChains {
			ops = append(ops, engine.OpN("ExtAdvance", ch))
		}
	}
	if on("ExtAdvanceSmall") {
		// just beyond the timeout of a batch built now (5760 blocks ahead), not beyond one built after a long idle period
		ops = append(ops, engine.OpN("ExtAdvance", "ethereum", 5770))
	}
	if on("NextTimeout") {
		ops = append(ops, engine.OpN("Next", c.Timeout+1))
	}
	if on("Idle") {
		// a long quiet period: 20000 hub blocks pass (the hub's PROJECTION of the external height moves far
		// beyond every batch timeout, the observed height does not move at all)
		ops = append(ops, engine.OpN("Next", 5, 20000))
	}
	if on("NextAtTimeout") {
		ops = append(ops, engine.OpN("Next", c.Timeout), engine.OpN("Next", c.Timeout-5))
	}
	if on("Confirm") {
		ops = append(ops, engine.OpN("Confirm", "ethereum", 0), engine.OpN("Confirm", "ethereum", 1))
	}
	if on("Prices") {
		ops = append(ops, engine.OpN("Prices"))
	}
	if on("Holders") {
		ops = append(ops, engine.OpN("Holders"))
	}
	if on("Lag") {
		ops = append(ops, engine.OpN("Lag"))
	}
	if on("ObserveSet0") {
		// the contract reports the signer set it was deployed with (Hub2.sol's constructor emits ValsetUpdatedEvent with nonce 0)
		ops = append(ops, engine.OpN("ObserveSet0", "ethereum"))
	}
	if on("Rotate") {
		for k := 1; k <= 3; k++ {
			ops = append(ops, engine.OpN("Rotate", k))
		}
	}
	if on("KeysElsewhere") {
		ops = append(ops, engine.OpN("KeysElsewhere", "bsc2"), engine.OpN("KeysElsewhere", "bs"))
	}
	if on("Param") {
		for i := range c.ParamChanges {
			ops = append(ops, engine.OpN("Param", i))
		}
	}
	if on("Relist") {
		for _, row := range c.Relist {
			ops = append(ops, engine.OpN("Relist", row))
		}
	}
	if on("Repoint") {
		for _, row := range c.Repoint {
			ops = append(ops, engine.OpN("Repoint", row))
		}
	}
	if on("Renumber") {
		ops = append(ops, engine.OpN("Renumber", 0))
	}
	if on("Dual") {
		for _, row := range c.Relist {
			ops = append(ops, engine.OpN("Dual", row))
		}
	}
	if on("ColdStorage") {
		for _, ch := range c.SendChains {
			ops = append(ops, engine.OpN("ColdStorage", ch, c.SendDenoms[0]))
		}
	}
	if on("ColdStorage2") {
		ops = append(ops, engine.OpN("ColdStorage", "ethereum", "hub", "eth"))
		// ... and one whose second asset is not listed on the target chain (eth has no bsc row): the proposal fails as a whole
		ops = append(ops, engine.OpN("ColdStorage", "bsc", "hub", "eth"))
	}
	return ops
}

type pbatch struct {
	Chain, Token string
	Nonce, Timeout uint64
}

// pendingBatches decodes batches from the snapshot's mhub2 store (no live instance needed).
func (b *Bridge) pendingBatches(s *HState) []pbatch {
	var out []pbatch
	cdc := snapCodec()
	for _, kv := range s.Snap.Stores[mhubtypes.StoreKey] {
		if len(kv.K) < 2 || kv.K[0] != mhubtypes.OutgoingTxKey {
			continue
		}
		otx, chain := decodeOutgoing(cdc, kv.K, kv.V)
		if bt, ok := otx.(*mhubtypes.BatchTx); ok {
			out = append(out, pbatch{Chain: chain, Token: bt.ExternalTokenId, Nonce: bt.BatchNonce, Timeout: bt.Timeout})
		}
	}
	sort.Slice(out, func(i, j int) bool {
		if out[i].Chain != out[j].Chain {
			return out[i].Chain < out[j].Chain
		}
		return out[i].Nonce < out[j].Nonce
	})
	return out
}

// ---------------------------------------------------------------------------------------------
// transitions

func (b *Bridge) observe(in *hub.Instance, chain string, ev mhubtypes.ExternalEvent, st *engine.Step) bool {
	ok := true
	for i, v := range b.Vals {
		if b.Cfg.Powers[i] == 0 {
			continue
		}
		if i == 0 && st.Counters["__lagA"] > 0 {
			continue // A's orchestrator is down
		}
		r := in.DeliverMsg(hub.EventMsg(v.Orch, chain, ev))
		if !r.OK() {
			ok = false
		}
	}
	return ok
}

func (b *Bridge) Do(in *hub.Instance, gg Ghost, op engine.Op, st *engine.Step) {
	g := gg.(*bridgeGhost)
	pre := b.view(in)
	preBal := b.balances(in)
	ctx := in.Ctx()
	_ = ctx
	// contained failures the modules report at Error level: the payouts of an executed batch (commissions, reimbursement,
	// fee refunds) are dropped as a whole when one of them cannot be made - with a listed token, prices and Minter keys in
	// place nothing justifies that
	in.ErrLog = nil
	defer func() {
		for _, m := range in.ErrLog {
			if strings.Contains(m, "payouts of an executed batch failed") && !b.Cfg.PayoutsMayFail {
				for _, p := range []string{"C13", "C19", "C01"} {
					b.v(st, p, "payouts_of_executed_batch_failed", "batchTxExecuted", "%s", m)
				}
			}
		}
	}()
	if g.LagA {
		st.Count("__lagA", 1)
		defer func() { delete(st.Counters, "__lagA") }()
	}
	switch op.Kind {
	case "Next":
		skip := int64(0)
		if len(op.I) > 1 {
			skip = op.I[1]
		}
		b.doNext(in, g, op.I[0], skip, pre, preBal, st)
		return
	case "Send":
		b.doSend(in, g, op, pre, preBal, st)
	case "Send2":
		b.doSend2(in, g, op, st)
	case "SendMany":
		// op.I[0] ordinary withdrawals (first amount, first fee) in as many transactions
		for i := int64(0); i < op.I[0]; i++ {
			var s2 engine.Step
			s2.Counters = map[string]int{}
			b.doSend(in, g, engine.OpN("Send", op.S[0], op.S[1], 0, 0, 0), pre, preBal, &s2)
		}
		st.Obs = fmt.Sprint("many", op.I[0])
	case "Cancel", "CancelUpper":
		b.doCancel(in, g, op, pre, preBal, st)
	case "ReqBatch":
		ch, d := op.S[0], op.S[1]
		r := in.DeliverMsg(&mhubtypes.MsgRequestBatchTx{ChainId: ch, Denom: d, Signer: b.Usr[0].String()})
		st.Obs = fmt.Sprint(r.OK())
		if r.OK() {
			st.Count("batch_requests_ok", 1)
		}
	case "Deposit":
		b.doDeposit(in, g, op, st)
	case "Exec":
		b.doExec(in, g, op, st)
	case "ExecOld":
		b.doExecOld(in, g, op, st)
	case "FakeHeight":
		ch := op.S[0]
		t := b.token(ch, "hub")
		ev := &mhubtypes.TransferToChainEvent{EventNonce: g.EvNonce[ch] + 1, ExternalCoinId: t.ExtID, Amount: sdk.NewInt(1), Fee: sdk.NewInt(0), Sender: hub.HexAddr("byz"),
			ReceiverChainId: "hub", ExternalReceiver: "0x" + fmt.Sprintf("%x", b.Usr[0].Bytes()), ExternalHeight: g.ExtHeight[ch] + 100_000_000, TxHash: "0xfake"}
		r := in.DeliverMsg(hub.EventMsg(b.Vals[0].Orch, ch, ev))
		if r.OK() {
			g.FakeAt[ch] = g.EvNonce[ch] + 1
			st.Count("minority_far_height_claims", 1)
		}
		st.Obs = fmt.Sprint(r.OK())
	case "ExtAdvance":
		// the external chain moves far ahead (beyond every batch timeout created so far)
		if len(op.I) > 0 {
			g.ExtHeight[op.S[0]] += uint64(op.I[0])
		} else {
			g.ExtHeight[op.S[0]] += 1_000_000
		}
		st.Obs = "adv"
	case "Confirm":
		// validator op.I[0] confirms the latest signer set tx of the chain
		ch := op.S[0]
		v := b.Vals[op.I[0]]
		if ss := in.Hub.GetLatestSignerSetTx(in.Ctx(), mhubtypes.ChainID(ch)); ss != nil {
			sig, _ := mhubtypes.NewEthereumSignature(ss.GetCheckpoint([]byte("defaultgravityid")), v.EthKey)
			r := in.DeliverMsg(hub.ConfirmMsg(v.Orch, ch, &mhubtypes.SignerSetTxConfirmation{SignerSetNonce: ss.Nonce, ExternalSigner: v.Eth.Hex(), Signature: sig}))
			st.Obs = fmt.Sprint(r.OK())
		}
	case "Prices":
		epoch := in.Oracle.GetCurrentEpoch(in.Ctx())
		for vi, v := range b.Vals {
			var pl []*oracletypes.Price
			for i, n := range []string{"eth", "ethereum/gas", "bnb", "bsc/gas", "hub", "eth"} {
				pl = append(pl, &oracletypes.Price{Name: n, Value: sdk.NewDec(int64(10 + i + vi))})
			}
			in.DeliverMsg(&oracletypes.MsgPriceClaim{Epoch: epoch, Prices: &oracletypes.Prices{List: pl}, Orchestrator: v.Acc.String()})
		}
		st.Obs = "prices"
	case "ObserveSet0":
		ch := op.S[0]
		var members []*mhubtypes.ExternalSigner
		for i, v := range b.Vals {
			members = append(members, &mhubtypes.ExternalSigner{Power: uint64(1000 * (len(b.Vals) - i)), ExternalAddress: v.Eth.Hex()})
		}
		g.EvNonce[ch]++
		g.ExtHeight[ch]++
		ev := &mhubtypes.SignerSetTxExecutedEvent{EventNonce: g.EvNonce[ch], SignerSetTxNonce: 0, ExternalHeight: g.ExtHeight[ch], Members: members, TxHash: fmt.Sprintf("0xdeploy-%d", g.EvNonce[ch])}
		g.Pending = append(g.Pending, pendingEvent{Chain: ch, Kind: "valset", EvNonce: g.EvNonce[ch], Height: g.ExtHeight[ch]})
		b.observe(in, ch, ev, st)
		st.Obs = "set0"
	case "Lag":
		g.LagA = !g.LagA
		st.Obs = fmt.Sprint(g.LagA)
	case "Rotate":
		// validator A re-registers its ethereum keys (new orchestrator account, new external key)
		k := op.I[0]
		v := b.Vals[0]
		seq, _ := in.Acc.GetSequence(in.Ctx(), v.Acc)
		r := in.DeliverMsg(hub.DelegateKeysMsg(in.Cdc, v, "ethereum", hub.User(fmt.Sprintf("neworch%d", k)), hub.EthKey(fmt.Sprintf("rot%d", k)), seq))
		st.Obs = fmt.Sprint(r.OK())
		if r.OK() {
			st.Count("key_rotations", 1)
		}
	case "KeysElsewhere":
		// validator B registers keys for a chain id the bridge does not list (SetDelegateKeys takes any chain id)
		v := b.Vals[1]
		seq, _ := in.Acc.GetSequence(in.Ctx(), v.Acc)
		r := in.DeliverMsg(hub.DelegateKeysMsg(in.Cdc, v, op.S[0], hub.User("orch-"+op.S[0]), hub.EthKey("key-"+op.S[0]), seq))
		st.Obs = fmt.Sprint(r.OK())
		if r.OK() {
			st.Count("keys_registered_for_unlisted_chain_ids", 1)
		}
	case "Holders":
		epoch := in.Oracle.GetCurrentEpoch(in.Ctx())
		for _, v := range b.Vals {
			in.DeliverMsg(&oracletypes.MsgHoldersClaim{Epoch: epoch, Holders: &oracletypes.Holders{List: []*oracletypes.Holder{{Address: b.Usr[0].String(), Value: sdk.NewInt(32).Mul(sdk.NewInt(1_000_000_000_000_000_000))}}}, Orchestrator: v.Acc.String()})
		}
		st.Obs = "holders"
	case "Param":
		pc := b.Cfg.ParamChanges[op.I[0]]
		err := in.ParamChange(mhubtypes.DefaultParamspace, pc[0], pc[1])
		st.Obs = fmt.Sprint(err == nil)
		if err == nil {
			st.Count("parameter_changes", 1)
		}
	case "Relist", "Repoint", "Renumber", "Dual":
		// governance replaces the token list. Relist: the row is removed if listed, put back if removed. Repoint: the row
		// keeps its token id and gets another external id (the token migrated to a new contract) - and back. Renumber: the
		// same listings (denom, chain, external id, decimals) are stored under fresh row ids (the list was dropped and
		// re-entered) - and back
		row := b.Cfg.Tokens[op.I[0]]
		key := row.Chain + "|" + row.Denom
		if op.Kind == "Repoint" {
			key = "repoint|" + key
		}
		if op.Kind == "Renumber" {
			key = "renumber"
		}
		if op.Kind == "Dual" {
			// the denom gets a second contract on the chain, listed BEFORE the first one (new withdrawals go to it); the
			// first listing stays - and back
			key = "dual|" + key
		}
		want := !g.Delisted[key]
		var infos []*mhubtypes.TokenInfo
		for i, t := range b.Cfg.Tokens {
			k := t.Chain + "|" + t.Denom
			if op.Kind == "Relist" && ((k == key && want) || (k != key && g.Delisted[k])) || op.Kind != "Relist" && g.Delisted[k] {
				continue
			}
			if dk := "dual|" + k; (dk == key && want) || (dk != key && g.Delisted[dk]) {
				infos = append(infos, &mhubtypes.TokenInfo{Id: uint64(200 + i), Denom: t.Denom, ChainId: t.Chain, ExternalTokenId: hub.HexAddr("second-" + k),
					ExternalDecimals: t.Dec, Commission: sdk.NewDec(t.CommissionBP).QuoInt64(10000)})
			}
			ext := t.ExtID
			if rk := "repoint|" + k; (rk == key && want) || (rk != key && g.Delisted[rk]) {
				ext = hub.HexAddr("migrated-" + k)
			}
			id := uint64(i + 1)
			if (op.Kind == "Renumber" && want) || (op.Kind != "Renumber" && g.Delisted["renumber"]) {
				id += 100
			}
			infos = append(infos, &mhubtypes.TokenInfo{Id: id, Denom: t.Denom, ChainId: t.Chain, ExternalTokenId: ext,
				ExternalDecimals: t.Dec, Commission: sdk.NewDec(t.CommissionBP).QuoInt64(10000)})
		}
		err := in.Proposal(&mhubtypes.TokenInfosChangeProposal{NewInfos: &mhubtypes.TokenInfos{TokenInfos: infos}})
		if err == nil {
			g.Delisted[key] = want
			st.Count("token_list_changes", 1)
		}
		st.Obs = fmt.Sprint(err == nil, want)
	case "ColdStorage":
		ch, d := op.S[0], op.S[1]
		amt := sdk.NewCoins(sdk.NewInt64Coin(d, 777))
		if len(op.S) > 2 {
			amt = amt.Add(sdk.NewInt64Coin(op.S[2], 555)) // a proposal naming two assets
		}
		err := in.Proposal(&mhubtypes.ColdStorageTransferProposal{ChainId: ch, Amount: amt})
		st.Obs = fmt.Sprint(err == nil)
	default:
		panic("unknown op " + op.Kind)
	}
	b.after(in, g, op, pre, preBal, st, false)
}

func (b *Bridge) balances(in *hub.Instance) map[string]sdk.Coins {
	out := map[string]sdk.Coins{}
	ctx := in.Ctx()
	for i, u := range b.Usr {
		out[fmt.Sprintf("u%d", i)] = in.Bank.GetAllBalances(ctx, u)
	}
	out["temp"] = in.Bank.GetAllBalances(ctx, mhubtypes.TempAddress)
	out["module"] = in.Bank.GetAllBalances(ctx, hub.ModuleAddr)
	return out
}

func (b *Bridge) doSend(in *hub.Instance, g *bridgeGhost, op engine.Op, pre *view, preBal map[string]sdk.Coins, st *engine.Step) {
	ch, d := op.S[0], op.S[1]
	u, ai, fi := op.I[0], op.I[1], op.I[2]
	amt, fee := b.Cfg.Amounts[ai], b.Cfg.Fees[fi]
	rcpt := hub.HexAddr(fmt.Sprintf("rcpt%d", u))
	if b.Cfg.RcptUpperPrefix {
		rcpt = "0X" + rcpt[2:]
	}
	msg := mhubtypes.NewMsgSendToExternal(mhubtypes.ChainID(ch), b.Usr[u], rcpt, sdk.NewInt64Coin(d, amt), sdk.NewInt64Coin(d, fee))
	r := in.DeliverMsg(msg)
	st.Obs = fmt.Sprint(r.OK())
	if !r.OK() {
		st.Count("sends_failed", 1)
		return
	}
	st.Count("sends_ok", 1)
	var resp mhubtypes.MsgSendToExternalResponse
	id := uint64(0)
	if err := unmarshalMsgData(in, r.Data, &resp); err == nil {
		id = resp.Id
	}
	// locate the new pool entry
	var ent *mhubtypes.SendToExternal
	for _, e := range b.view(in).Pool[ch] {
		if e.Id == id {
			ent = e
		}
	}
	if ent == nil {
		st.Violate(b.Cfg.Prop, "accepted_send_not_in_pool", "createSendToExternal", "send %s returned id %d but the pool has no such entry", op, id)
		return
	}
	key := fmt.Sprintf("%s/%d", ch, id)
	if _, dup := g.Xfers[key]; dup && b.Cfg.Prop == "C04" {
		st.Violate("C04", "duplicate_transfer_id", "incrementLastSendToExternalIDKey", "id %s issued twice", key)
	}
	g.Xfers[key] = &xfer{Chain: ch, ID: id, Sender: b.Usr[u].String(), TxHash: r.TxHash, Denom: d, Taken: sdk.NewInt(amt + fee).String(),
		Amt: ent.Token.Amount.String(), Fee: ent.Fee.Amount.String(), Com: ent.ValCommission.Amount.String(), Origin: "hub", OriginAddr: b.Usr[u].String(),
		Where: "pool", Created: in.Time}
}

// doSend2: one transaction with two MsgSendToExternal (they share the tx hash under which status is kept).
func (b *Bridge) doSend2(in *hub.Instance, g *bridgeGhost, op engine.Op, st *engine.Step) {
	ch, d := op.S[0], op.S[1]
	amt := b.Cfg.Amounts[0]
	f1, f2 := b.Cfg.Fees[0], b.Cfg.Fees[len(b.Cfg.Fees)-1]+1
	rcpt := hub.HexAddr("rcpt0")
	before := map[uint64]bool{}
	for _, e := range b.view(in).Pool[ch] {
		before[e.Id] = true
	}
	r := in.DeliverMsgs(mhubtypes.NewMsgSendToExternal(mhubtypes.ChainID(ch), b.Usr[0], rcpt, sdk.NewInt64Coin(d, amt), sdk.NewInt64Coin(d, f1)),
		mhubtypes.NewMsgSendToExternal(mhubtypes.ChainID(ch), b.Usr[0], rcpt, sdk.NewInt64Coin(d, amt), sdk.NewInt64Coin(d, f2)))
	st.Obs = fmt.Sprint(r.OK())
	if !r.OK() {
		return
	}
	st.Count("sends_ok", 2)
	for _, e := range b.view(in).Pool[ch] {
		if before[e.Id] {
			continue
		}
		fee := f1
		if e.Fee.Amount.Equal(refConvert(sdk.NewInt(f2), 18, b.token(ch, d).Dec)) {
			fee = f2
		}
		g.Xfers[fmt.Sprintf("%s/%d", ch, e.Id)] = &xfer{Chain: ch, ID: e.Id, Sender: b.Usr[0].String(), TxHash: r.TxHash, Denom: d, Taken: sdk.NewInt(amt + fee).String(),
			Amt: e.Token.Amount.String(), Fee: e.Fee.Amount.String(), Com: e.ValCommission.Amount.String(), Origin: "hub", OriginAddr: b.Usr[0].String(), Where: "pool", Created: in.Time}
	}
}

func (b *Bridge) doCancel(in *hub.Instance, g *bridgeGhost, op engine.Op, pre *view, preBal map[string]sdk.Coins, st *engine.Step) {
	ch := op.S[0]
	u, id := op.I[0], uint64(op.I[1])
	msg := mhubtypes.NewMsgCancelSendToExternal(id, mhubtypes.ChainID(ch), b.Usr[u])
	if op.Kind == "CancelUpper" {
		// who the original sender is does not depend on how the account is spelled: the outcome must be that of the
		// canonical spelling
		snap, seq := in.Snapshot(), in.AnteSeq
		lower := in.DeliverMsg(msg).OK()
		in.Restore(snap)
		in.AnteSeq = seq
		msg.Sender = strings.ToUpper(msg.Sender)
		if err := msg.ValidateBasic(); err == nil {
			if upper := in.DeliverMsg(msg).OK(); upper != lower {
				st.Violate("C12", "cancel_depends_on_the_spelling_of_the_sender", "cancelSendToExternal", "cancel of %s/%d by its sender %s: accepted=%v in the canonical spelling, accepted=%v in upper case", ch, id, b.Usr[u], lower, upper)
			}
			in.Restore(snap)
			in.AnteSeq = seq
		}
		msg.Sender = b.Usr[u].String()
	}
	r := in.DeliverMsg(msg)
	st.Obs = fmt.Sprint(r.OK())
	if r.OK() {
		st.Count("cancels_ok", 1)
	} else {
		st.Count("cancels_rejected", 1)
	}
	b.cancelOracle(in, g, ch, id, b.Usr[u].String(), r.OK(), pre, preBal, st)
}

func (b *Bridge) doDeposit(in *hub.Instance, g *bridgeGhost, op engine.Op, st *engine.Step) {
	ch, d, dest := op.S[0], op.S[1], op.S[2]
	ai, fi := op.I[0], op.I[1]
	amt, fee := b.Cfg.DepAmts[ai], b.Cfg.DepFees[fi]
	t := b.token(ch, d)
	// external chain: the contract / multisig locks exactly `amt`
	g.EvNonce[ch]++
	g.ExtHeight[ch]++
	ck := ch + "|" + t.ExtID
	if g.Custody[ck] == nil {
		g.Custody[ck] = new(big.Int)
	}
	g.Custody[ck].Add(g.Custody[ck], big.NewInt(amt))
	sender := hub.HexAddr("extsender")
	txh := fmt.Sprintf("0xext-%s-%d", ch, g.EvNonce[ch])
	var ev mhubtypes.ExternalEvent
	locked := toHubRat(big.NewInt(amt), t.Dec).RatString()
	if dest == "hub" && ch == "minter" {
		// the Minter connector emits SendToHubEvent for hub-bound deposits (cosmos.CreateClaims)
		ev = &mhubtypes.SendToHubEvent{EventNonce: g.EvNonce[ch], ExternalCoinId: t.ExtID, Amount: sdk.NewInt(amt), Sender: sender,
			CosmosReceiver: b.Usr[0].String(), ExternalHeight: g.ExtHeight[ch], TxHash: txh}
		g.Pending = append(g.Pending, pendingEvent{Chain: ch, Kind: "dep-hub", Denom: d, Locked: locked, Recv: "u0", EvNonce: g.EvNonce[ch], Height: g.ExtHeight[ch]})
	} else if dest == "hub" {
		// Hub2.sol emits TransferToChainEvent(_amount,_fee); the orchestrator copies both (build.rs)
		ev = &mhubtypes.TransferToChainEvent{EventNonce: g.EvNonce[ch], ExternalCoinId: t.ExtID, Amount: sdk.NewInt(amt), Fee: sdk.NewInt(fee), Sender: sender,
			ReceiverChainId: "hub", ExternalReceiver: "0x" + fmt.Sprintf("%x", b.Usr[0].Bytes()), ExternalHeight: g.ExtHeight[ch], TxHash: txh}
		g.Pending = append(g.Pending, pendingEvent{Chain: ch, Kind: "dep-hub", Denom: d, Locked: locked, Recv: "u0", EvNonce: g.EvNonce[ch], Height: g.ExtHeight[ch]})
	} else {
		ev = &mhubtypes.TransferToChainEvent{EventNonce: g.EvNonce[ch], ExternalCoinId: t.ExtID, Amount: sdk.NewInt(amt), Fee: sdk.NewInt(fee), Sender: sender,
			ReceiverChainId: dest, ExternalReceiver: hub.HexAddr("xrcpt"), ExternalHeight: g.ExtHeight[ch], TxHash: txh}
		g.Pending = append(g.Pending, pendingEvent{Chain: ch, Kind: "dep-chain", Denom: d, Locked: locked, Recv: dest, EvNonce: g.EvNonce[ch], Height: g.ExtHeight[ch], TxHash: txh})
	}
	if !b.observe(in, ch, ev, st) {
		st.Count("claims_rejected", 1)
	}
	st.Count("deposits", 1)
	st.Obs = "dep"
}

func (b *Bridge) feePaid() sdk.Int {
	if b.Cfg.ExecFeePaidStr != "" {
		v, ok := sdk.NewIntFromString(b.Cfg.ExecFeePaidStr)
		if !ok {
			panic("bad ExecFeePaidStr")
		}
		return v
	}
	if b.Cfg.ExecFeePaid > 0 {
		return sdk.NewInt(b.Cfg.ExecFeePaid)
	}
	return sdk.NewInt(3)
}

func (b *Bridge) doExec(in *hub.Instance, g *bridgeGhost, op engine.Op, st *engine.Step) {
	ch, tok := op.S[0], op.S[1]
	nonce := uint64(op.I[0])
	var bt *mhubtypes.BatchTx
	for _, x := range b.view(in).Batches[ch] {
		if x.ExternalTokenId == tok && x.BatchNonce == nonce {
			bt = x
		}
	}
	if bt == nil {
		st.Obs = "nobatch"
		return
	}
	// external chain rule (Hub2.sol submitBatch): nonce newer than the last executed one for this
	// token and block.number < timeout. Minter multisig: only the oldest pending batch (its nonce is the tx sequence).
	if ch == "minter" {
		for _, x := range b.view(in).Batches[ch] {
			if x.Sequence < bt.Sequence {
				st.Obs = "minter-out-of-order"
				return
			}
		}
	} else {
		if nonce <= g.LastExec[ch+"|"+tok] {
			st.Obs = "ext-reject-nonce"
			return
		}
		if !(g.ExtHeight[ch] < bt.Timeout) {
			st.Obs = "ext-reject-timeout"
			return
		}
	}
	for _, e := range g.ExecUnobs {
		if e.Chain == ch && e.Token == tok && e.Nonce == nonce {
			st.Obs = "already-executed"
			return
		}
	}
	g.LastExec[ch+"|"+tok] = nonce
	ck := ch + "|" + tok
	if g.Custody[ck] == nil {
		g.Custody[ck] = new(big.Int)
	}
	for _, tx := range bt.Transactions {
		if isCold(ch, tx.ExternalRecipient) {
			continue // moved to cold storage: still custody
		}
		g.Custody[ck].Sub(g.Custody[ck], tx.Token.Amount.BigInt())
	}
	g.ExecUnobs = append(g.ExecUnobs, extBatch{ch, tok, nonce})
	g.EvNonce[ch]++
	g.ExtHeight[ch]++
	ev := &mhubtypes.BatchExecutedEvent{ExternalCoinId: tok, EventNonce: g.EvNonce[ch], ExternalHeight: g.ExtHeight[ch], BatchNonce: nonce,
		TxHash: fmt.Sprintf("0xexec-%s-%d", ch, g.EvNonce[ch]), FeePaid: b.feePaid(), FeePayer: hub.HexAddr("relayer")}
	g.Pending = append(g.Pending, pendingEvent{Chain: ch, Kind: "exec", Token: tok, Nonce: nonce, EvNonce: g.EvNonce[ch], Height: g.ExtHeight[ch]})
	b.observe(in, ch, ev, st)
	st.Count("batches_executed_externally", 1)
	st.Obs = "exec"
}

// doExecOld: a relayer submits a batch the hub has already withdrawn. The external chain judges it by its
// own rules only; if it accepts, the hub freed a batch that could still execute.
func (b *Bridge) doExecOld(in *hub.Instance, g *bridgeGhost, op engine.Op, st *engine.Step) {
	ch, tok := op.S[0], op.S[1]
	nonce := uint64(op.I[0])
	k := fmt.Sprintf("%s|%s|%d", ch, tok, nonce)
	w := g.Withdrawn[k]
	if w == nil || !g.stillExecutable(w) {
		st.Obs = "ext-reject"
		return
	}
	b.v(st, "C13", "withdrawn_batch_still_executable", "CancelBatchTx", "batch %s (timeout %d) was withdrawn by the hub, yet the external chain (height %d, last executed nonce of the token %d) accepts it", k, w.Timeout, g.ExtHeight[ch], g.LastExec[ch+"|"+tok])
	for _, id := range w.IDs {
		if x := g.Xfers[fmt.Sprintf("%s/%d", ch, id)]; x != nil && x.Where != fmt.Sprintf("batch:%s:%d", tok, nonce) {
			b.v(st, "C04", "executed_externally_while_elsewhere", "CancelBatchTx", "transfer %s/%d was paid out by the external chain in batch %s while the hub has it at %s", ch, id, k, x.Where)
		}
	}
	g.LastExec[ch+"|"+tok] = nonce
	ck := ch + "|" + tok
	if g.Custody[ck] == nil {
		g.Custody[ck] = new(big.Int)
	}
	for _, a := range w.Amts {
		n, _ := new(big.Int).SetString(a, 10)
		g.Custody[ck].Sub(g.Custody[ck], n)
	}
	delete(g.Withdrawn, k)
	g.EvNonce[ch]++
	g.ExtHeight[ch]++
	ev := &mhubtypes.BatchExecutedEvent{ExternalCoinId: tok, EventNonce: g.EvNonce[ch], ExternalHeight: g.ExtHeight[ch], BatchNonce: nonce,
		TxHash: fmt.Sprintf("0xexec-%s-%d", ch, g.EvNonce[ch]), FeePaid: b.feePaid(), FeePayer: hub.HexAddr("relayer")}
	g.Pending = append(g.Pending, pendingEvent{Chain: ch, Kind: "exec-old", Token: tok, Nonce: nonce, EvNonce: g.EvNonce[ch], Height: g.ExtHeight[ch]})
	b.observe(in, ch, ev, st)
	st.Count("withdrawn_batches_executed_externally", 1)
	st.Obs = "exec-old"
}

func (b *Bridge) doNext(in *hub.Instance, g *bridgeGhost, dt, skip int64, pre *view, preBal map[string]sdk.Coins, st *engine.Step) {
	// --- EndBlock of the open block: tally applies pending events, then expiry refunds
	if p := in.EndBlock(); BlockFailure(st, p) {
		return
	}
	b.after(in, g, engine.OpN("EndBlock"), pre, preBal, st, true)
	g.Pending = nil
	if b.Cfg.Prop == "C15" {
		b.c15Check(in, g, st)
	}
	// --- BeginBlock of the next block: batch timeouts, automatic batching
	pre2 := b.view(in)
	preBal2 := b.balances(in)
	if skip > 0 {
		// blocks in which nothing happens (see hub.Instance.IdleBlocks)
		in.Height += skip
		in.Time += skip * 5
	}
	if p := in.BeginBlock(dt); BlockFailure(st, p) {
		return
	}
	b.after(in, g, engine.OpN("BeginBlock"), pre2, preBal2, st, false)
	st.Obs = fmt.Sprintf("next%d+%d", dt, skip)
}

// ---------------------------------------------------------------------------------------------
// configurations per property

func stdTokens(ethDec uint64) []TokenRow {
	return []TokenRow{
		{"hub", "ethereum", EthHub, ethDec, 100},
		{"hub", "bsc", BscHub, 18, 100},
		{"hub", "minter", "1", 18, 100},
		{"eth", "ethereum", EthEth, 18, 100},
		{"eth", "minter", "12", 18, 100},
	}
}

func opsSet(names ...string) map[string]bool {
	m := map[string]bool{}
	for _, n := range names {
		m[n] = true
	}
	return m
}

// seedObserved: both chains have an observed external height, so batches get real timeouts.
var seedObserved = []engine.Op{engine.OpN("Deposit", "ethereum", "hub", "hub", 0, 0), engine.OpN("Deposit", "minter", "hub", "hub", 0, 0), engine.OpN("Next", 5)}

// seedRefundBatched: a transfer that originated on ethereum expired on minter; its refund transfer
// (module-created, tx hash "#") now sits in an ethereum batch at height 4.
var seedRefundBatched = []engine.Op{engine.OpN("Next", 5), engine.OpN("Deposit", "ethereum", "hub", "minter", 0, 0), engine.OpN("Next", 3601), engine.OpN("Next", 5)}

// seedTwoTokenBatches: two tokens have a pending batch each on ethereum (hub: nonce 1, eth: nonce 2), heights observed.
var seedTwoTokenBatches = []engine.Op{engine.OpN("Deposit", "ethereum", "hub", "hub", 0, 0), engine.OpN("Next", 5),
	engine.OpN("Send", "ethereum", "hub", 0, 0, 0), engine.OpN("ReqBatch", "ethereum", "hub"),
	engine.OpN("Send", "ethereum", "eth", 0, 0, 0), engine.OpN("ReqBatch", "ethereum", "eth")}

// seedSharedHash: one hub transaction carried two withdrawals (ids 1 and 2, one tx hash); the sender cancelled the
// first (its status - the status of the shared hash - is REFUNDED for good), the second sits in batch 1.
var seedSharedHash = append(append([]engine.Op{}, seedObserved...), engine.OpN("Send2", "ethereum", "hub"), engine.OpN("Cancel", "ethereum", 0, 1), engine.OpN("ReqBatch", "ethereum", "hub"))

func bridgeCfgFor(prop, tier string) (BridgeCfg, engine.Config) {
	thorough := tier == "thorough"
	cfg := BridgeCfg{Prop: prop, Tokens: stdTokens(18), Powers: []int64{10, 10, 10}, Users: 1,
		Amounts: []int64{1000}, Fees: []int64{7, 50}, DepAmts: []int64{500}, DepFees: []int64{0}, DepDests: []string{"hub"},
		SendChains: []string{"ethereum", "minter"}, SendDenoms: []string{"hub", "eth"}, DepChains: []string{"ethereum"}, Timeout: 3600}
	ec := engine.Config{MaxDepth: 4, Deadline: 180 * time.Second, ReplayLeaf: 40}
	if thorough {
		ec = engine.Config{MaxDepth: 7, Deadline: 15 * time.Minute, ReplayLeaf: 300}
	}
	switch prop {
	case "C04":
		cfg.Ops = opsSet("Next", "Send", "Send2", "Cancel", "ReqBatch", "Exec", "Deposit", "ExtAdvance", "NextTimeout")
		cfg.Seeds = [][]engine.Op{{}, seedObserved, seedRefundBatched, seedTwoTokenBatches, seedSharedHash}
	case "C10":
		cfg.Ops = opsSet("Next", "Send", "ReqBatch")
		cfg.Fees = []int64{7, 7, 50}
		cfg.Users = 1
		ec.MaxDepth = 5
		if thorough {
			ec.MaxDepth = 8
		}
	case "C12":
		cfg.Ops = opsSet("Next", "Send", "Cancel", "CancelUpper", "CancelWrongChain", "ReqBatch", "Deposit", "NextTimeout", "NextAtTimeout", "ExtAdvance")
		// third seed: the module-created refund transfer (no refund destination) and a user's transfer of a smaller
		// token id sit in two ethereum batches whose timeout the external chain has passed (not yet observed)
		cfg.Seeds = [][]engine.Op{{}, seedRefundBatched, append(append([]engine.Op{}, seedRefundBatched...),
			engine.OpN("Send", "ethereum", "eth", 0, 0, 0), engine.OpN("Next", 5), engine.OpN("Next", 5), engine.OpN("ExtAdvance", "ethereum")), seedSharedHash}
		cfg.Users = 2
		cfg.Fees = []int64{7}
		cfg.SendDenoms = []string{"hub"}
		cfg.DepDests = []string{"minter", "bsc"} // foreign-originated transfers only (no hub-bound deposits)
		cfg.DepAmts = []int64{100000}
		cfg.DepFees = []int64{3}
		cfg.Tokens = stdTokens(6)
		cfg.Amounts = []int64{1_000_000_000_000_007} // 1000 external units + dust at 6 decimals
		cfg.Fees = []int64{7_000_000_000_001}
	case "C13":
		cfg.Ops = opsSet("Next", "Send", "ReqBatch", "Exec", "Deposit", "ExtAdvance", "FakeHeight")
		cfg.SendChains = []string{"ethereum", "minter", "bsc"}
		cfg.Fees = []int64{7}
		cfg.DepChains = []string{"ethereum", "bsc"}
		cfg.Seeds = [][]engine.Op{seedObserved, seedTwoTokenBatches}
	case "C15":
		if !thorough {
			ec.MaxDepth = 5
		}
		cfg.Ops = opsSet("Next", "Send", "ReqBatch", "Exec", "Deposit", "Cancel", "Confirm", "Prices")
		cfg.Fees = []int64{7}
		cfg.SendDenoms = []string{"hub"}
		cfg.DepDests = []string{"hub", "minter"}
		cfg.Seeds = [][]engine.Op{{}, seedObserved}
	case "C01":
		cfg.Ops = opsSet("Next", "Send", "Cancel", "ReqBatch", "Exec", "Deposit", "ExtAdvance", "NextTimeout", "ColdStorage", "ColdStorage2", "Idle")
		cfg.DepDests = []string{"hub", "minter", "ethereum"}
		cfg.DepChains = []string{"ethereum", "minter"}
		cfg.DepFees = []int64{0, 3}
		cfg.SendDenoms = []string{"hub"}
		cfg.Tokens = stdTokens(6)
		cfg.Amounts = []int64{1_000_000_000_000_007}
		cfg.Fees = []int64{7_000_000_000_001}
		cfg.Seeds = [][]engine.Op{{}, seedObserved, seedTwoTokenBatches}
		if thorough {
			cfg.Ops["FakeHeight"] = true // a Byzantine third of the power claims a fake far-ahead deposit for the next nonce
		}
	}
	return cfg, ec
}

// execCases: configurations around the execution of a batch that are shared by C01, C04 and C13.
//   - governance changes the token list while a batch of the token is pending (its row on the destination chain, or its
//     Minter row - where commissions and fee payouts go - is taken off the list); the contract knows nothing of that and
//     executes the batch
//   - a token that is listed on ethereum and bsc only (it has no Minter row at all)
//   - Minter knows no batch timeout: a Minter batch (it carries a nominal timeout all the same) is executed long after it
func execCases(cfg BridgeCfg, ec engine.Config, extra ...string) []MultiCase {
	gl := cfg
	gl.PayoutsMayFail = true
	gl.Relist = []int{0, 2}
	gl.Tokens = stdTokens(18)
	gl.Amounts, gl.Fees = []int64{1000}, []int64{7}
	gl.Fees = []int64{7, 50}
	gl.Seeds = [][]engine.Op{append(append([]engine.Op{}, seedObserved...), engine.OpN("Send", "ethereum", "hub", 0, 0, 0), engine.OpN("ReqBatch", "ethereum", "hub")),
		// two pending batches of the token (the second pays the higher fee): executing the newer one releases the older one
		append(append([]engine.Op{}, seedObserved...), engine.OpN("Send", "ethereum", "hub", 0, 0, 0), engine.OpN("ReqBatch", "ethereum", "hub"),
			engine.OpN("Send", "ethereum", "hub", 0, 0, 1), engine.OpN("ReqBatch", "ethereum", "hub"))}
	gl.Ops = opsSet(append([]string{"Next", "Relist", "Exec", "ExtAdvance", "Deposit"}, extra...)...)
	gl.SendChains = []string{"ethereum"}
	gl.SendDenoms = []string{"hub", "eth"} // deposits of the other token move the observed height on
	gl.DepChains = []string{"ethereum"}
	gl.DepDests = []string{"hub"}
	gl.DepFees = []int64{0}
	nm := cfg
	nm.PayoutsMayFail = true
	nm.Tokens = append(append([]TokenRow{}, stdTokens(18)[:2]...), stdTokens(18)[3:]...)
	nm.Amounts, nm.Fees = []int64{1000}, []int64{7}
	nm.Seeds = [][]engine.Op{{engine.OpN("Deposit", "ethereum", "hub", "hub", 0, 0), engine.OpN("Next", 5)}}
	nm.Ops = opsSet(append([]string{"Next", "Send", "ReqBatch", "Exec", "ExtAdvance", "Deposit"}, extra...)...)
	nm.SendChains = []string{"ethereum"}
	nm.SendDenoms = []string{"hub"}
	nm.DepChains = []string{"ethereum"}
	nm.DepDests = []string{"hub"}
	nm.DepFees = []int64{0}
	lm := cfg
	lm.Tokens = stdTokens(18)
	lm.Amounts, lm.Fees = []int64{1000}, []int64{7}
	lm.Seeds = [][]engine.Op{append(append([]engine.Op{}, seedObserved...), engine.OpN("Send", "minter", "hub", 0, 0, 0), engine.OpN("Next", 5), engine.OpN("Next", 5))}
	lm.Ops = opsSet(append([]string{"Next", "Send", "Exec", "ExtAdvance", "Deposit"}, extra...)...)
	lm.SendChains = []string{"minter"}
	lm.SendDenoms = []string{"hub"}
	lm.DepChains = []string{"minter"}
	lm.DepDests = []string{"hub"}
	lm.DepFees = []int64{0}
	// the execution event carries a gas cost of 2^255 wei (Validate puts no bound on it): valuing it overflows the
	// 256-bit integers - a failure of the payouts that is not an error value but an arithmetic panic
	hf := gl
	hf.Relist = nil
	hf.ExecFeePaidStr = "57896044618658097711785492504343953926634992332820282019728792003956564819968"
	hf.Ops = opsSet(append([]string{"Next", "Exec", "ExtAdvance", "Deposit"}, extra...)...)
	return []MultiCase{
		{Name: "an executed batch whose reported gas cost is 2^255", Spec: NewBridge(hf), Cfg: ec},
		{Name: "a token without a Minter row", Spec: NewBridge(nm), Cfg: ec},
		{Name: "token list changed by governance while a batch of the token is pending", Spec: NewBridge(gl), Cfg: ec},
		{Name: "a Minter batch executed long after its nominal timeout", Spec: NewBridge(lm), Cfg: ec},
	}
}

func bridgeAssumptions(cfg BridgeCfg) []string {
	return []string{
		fmt.Sprintf("closed system: %d user(s), 3 honest validators of equal power voting every external event in one block, chains %v, tokens %v", cfg.Users, cfg.SendChains, cfg.Tokens),
		"external chains are reference ledgers: the contract/multisig locks exactly the deposited amount, executes a batch only if its nonce is newer than the last executed one for the token and block height < timeout (Hub2.sol submitBatch), Minter executes batches in sequence order",
		"claims are built as orchestrator/cosmos_gravity/src/build.rs and minter-connector/cosmos.CreateClaims build them (Amount=_amount, Fee=_fee)",
		"circulating supply = total supply minus the balances of the module account and of the keyless temporary address; transfers to the governance cold-storage addresses are moves between custody locations",
		"staking is a scripted table; alphabet and bounds as listed in coverage",
	}
}

func init() {
	Register("C01", MultiRunner(func(tier string) ([]MultiCase, []string) {
		cfg, ec := bridgeCfgFor("C01", tier)
		np := cfg
		np.NoPrices = true
		np.Seeds = [][]engine.Op{seedObserved}
		np.Ops = opsSet("Next", "Send", "ReqBatch", "Exec", "Deposit")
		np.DepDests = []string{"hub"}
		np.DepChains = []string{"ethereum"}
		ec2 := ec
		ec2.Deadline = ec.Deadline / 3
		// a token with more than 18 decimals on ethereum, fee-paying transfers from Minter, fee surplus at execution
		hd := cfg
		hd.Tokens = stdTokens(24)
		hd.DepChains = []string{"minter"}
		hd.DepDests = []string{"ethereum"}
		hd.DepAmts = []int64{100000}
		hd.DepFees = []int64{3, 40}
		hd.SendChains = []string{"ethereum"}
		hd.Amounts = []int64{1000}
		hd.Fees = []int64{7}
		hd.Ops = opsSet("Next", "Deposit", "ReqBatch", "Exec", "ExtAdvance", "NextTimeout")
		hd.Seeds = [][]engine.Op{append(append([]engine.Op{}, seedObserved...), engine.OpN("Deposit", "minter", "hub", "ethereum", 0, 0), engine.OpN("Next", 5))}
		// governance takes the token off the originating chain's list while a transfer from there is pending (see C04)
		dl := cfg
		dl.Relist = []int{0}
		dl.Ops = opsSet("Next", "NextTimeout", "Deposit", "Relist", "Send", "ReqBatch")
		dl.SendChains = []string{"minter", "bsc"}
		dl.DepChains = []string{"ethereum"}
		dl.DepDests = []string{"minter", "bsc"}
		dl.DepFees = []int64{0}
		dl.Seeds = [][]engine.Op{{}, {engine.OpN("Next", 5)}}
		// one validator (a third of the power, below the quorum) claims a far-ahead external height for the next nonce while a
		// batch is pending; relayers still hold that batch's signatures
		fh := cfg
		fh.Ops = opsSet("Next", "Send", "ReqBatch", "Exec", "Cancel", "FakeHeight", "Deposit")
		fh.SendChains = []string{"ethereum"}
		fh.DepChains = []string{"ethereum"}
		fh.DepDests = []string{"hub"}
		fh.DepFees = []int64{0}
		fh.Seeds = [][]engine.Op{append(append([]engine.Op{}, seedObserved...), engine.OpN("Send", "ethereum", "hub", 0, 0, 0), engine.OpN("ReqBatch", "ethereum", "hub"))}
		// deposits bound for a chain on which the token is not listed (hub has no bsc row here)
		ul := cfg
		ul.Tokens = append(append([]TokenRow{}, cfg.Tokens[:1]...), cfg.Tokens[2:]...)
		ul.DepUnlisted = true
		ul.DepChains = []string{"ethereum", "minter"}
		ul.DepDests = []string{"bsc", "hub"}
		ul.Ops = opsSet("Next", "Deposit", "Send", "Cancel")
		ul.SendChains = []string{"ethereum"}
		ul.Seeds = [][]engine.Op{{}}
		return append([]MultiCase{{Name: "oracle prices present", Spec: NewBridge(cfg), Cfg: ec}, {Name: "no oracle prices yet", Spec: NewBridge(np), Cfg: ec2},
			{Name: "deposits bound for a chain on which the token is not listed", Spec: NewBridge(ul), Cfg: ec2},
			{Name: "a minority claims a far-ahead external height while a batch is pending", Spec: NewBridge(fh), Cfg: ec2},
			{Name: "token taken off the originating chain's list while a transfer from there is pending", Spec: NewBridge(dl), Cfg: ec2},
			{Name: "24-decimals token, fee-paying transfers from Minter, fee surplus at execution", Spec: NewBridge(hd), Cfg: ec2}}, execCases(cfg, ec2, "NextTimeout", "ReqBatch", "Cancel")...), bridgeAssumptions(cfg)
	}))
	Register("C13", MultiRunner(func(tier string) ([]MultiCase, []string) {
		cfg, ec := bridgeCfgFor("C13", tier)
		a, bb, cc := cfg, cfg, cfg
		a.Seeds = [][]engine.Op{seedObserved}
		bb.Seeds = [][]engine.Op{seedTwoTokenBatches}
		bb.Ops = opsSet("Next", "Send", "ReqBatch", "Exec", "Deposit", "ExtAdvance", "FakeHeight", "Idle")
		ecb := ec
		ecb.Deadline = ec.Deadline / 2
		// timeouts that are not monotone in the batch nonce: batch 1 built after a long quiet period (its timeout sits on
		// the hub's projection of the external height), then a real, lower height is observed and batch 2 gets an EARLIER timeout
		cc.Seeds = [][]engine.Op{{engine.OpN("Deposit", "ethereum", "hub", "hub", 0, 0), engine.OpN("Next", 5), engine.OpN("Next", 5, 20000),
			engine.OpN("Send", "ethereum", "hub", 0, 0, 0), engine.OpN("ReqBatch", "ethereum", "hub"), engine.OpN("Deposit", "ethereum", "hub", "hub", 0, 0), engine.OpN("Next", 5),
			engine.OpN("Send", "ethereum", "hub", 0, 0, 0), engine.OpN("ReqBatch", "ethereum", "hub")}}
		cc.Ops = opsSet("Next", "Exec", "Deposit", "ExtAdvance", "ExtAdvanceSmall")
		cc.SendChains = []string{"ethereum"}
		cc.DepChains = []string{"ethereum"}
		// transfers of a few hundred units: the validators' commission is 2 units, less than one unit per validator
		dd := cfg
		dd.Seeds = [][]engine.Op{seedObserved}
		dd.Amounts = []int64{250}
		dd.Ops = opsSet("Next", "Send", "ReqBatch", "Exec")
		dd.SendChains = []string{"ethereum", "minter"}
		dd.SendDenoms = []string{"hub"}
		// token contracts as they are spelled in a real token list (EIP-55 mixed case): their byte order (the store's) and their
		// case-insensitive order disagree ('C' < 'a' as bytes, "0xa4.." < "0xc0.." without case); three batches are pending:
		// hub #1, eth #2, hub #3 - in both assignments of the two contracts
		mk := func(hubID, ethID string) BridgeCfg {
			x := cfg
			x.Tokens = append([]TokenRow{}, cfg.Tokens...)
			for i := range x.Tokens {
				if x.Tokens[i].Chain == "ethereum" && x.Tokens[i].Denom == "hub" {
					x.Tokens[i].ExtID = hubID
				}
				if x.Tokens[i].Chain == "ethereum" && x.Tokens[i].Denom == "eth" {
					x.Tokens[i].ExtID = ethID
				}
			}
			x.Seeds = [][]engine.Op{append(append([]engine.Op{}, seedTwoTokenBatches...), engine.OpN("Send", "ethereum", "hub", 0, 0, 0), engine.OpN("ReqBatch", "ethereum", "hub"))}
			x.Ops = opsSet("Next", "Exec", "Deposit", "ExtAdvance")
			x.SendChains = []string{"ethereum"}
			x.DepChains = []string{"ethereum"}
			return x
		}
		// a token with more than 18 decimals on ethereum, transfers that come from Minter and carry a fee, a relayer whose
		// valued gas cost is below the collected fees: the surplus is refunded to the Minter senders at execution
		hd := cfg
		hd.Tokens = stdTokens(24)
		hd.DepChains = []string{"minter"}
		hd.DepDests = []string{"ethereum"}
		hd.DepAmts = []int64{100000}
		hd.DepFees = []int64{3, 40}
		hd.SendChains = []string{"ethereum"}
		hd.SendDenoms = []string{"hub"}
		hd.Ops = opsSet("Next", "Deposit", "ReqBatch", "Exec")
		hd.Seeds = [][]engine.Op{append(append([]engine.Op{}, seedObserved...), engine.OpN("Deposit", "minter", "hub", "ethereum", 0, 0), engine.OpN("Next", 5))}
		hd6 := hd
		hd6.Tokens = stdTokens(6)
		hd6.DepAmts = []int64{2_000_000_000_000_000} // 2000 units at 6 decimals
		hd6.DepFees = []int64{3_000_000_000_000, 40_000_000_000_000}
		hd6.ExecFeePaid = 1_000_000_000_000 // valued at 6.4e11 hub units: below the fees collected, far above a fee counted in external units
		// the oracle knows the gas coin's price but has not attested the token's price yet (a freshly listed token)
		pp := cfg
		pp.NoPriceFor = []string{"hub"}
		pp.Seeds = [][]engine.Op{seedObserved}
		pp.Ops = opsSet("Next", "Send", "ReqBatch", "Exec")
		pp.SendChains = []string{"ethereum"}
		pp.SendDenoms = []string{"hub"}
		// two withdrawals of one hub transaction: one cancelled, the other batched; the batch is then withdrawn
		sh := cfg
		sh.Seeds = [][]engine.Op{seedSharedHash}
		sh.Ops = opsSet("Next", "Send", "ReqBatch", "Exec", "Deposit", "ExtAdvance")
		sh.SendChains = []string{"ethereum"}
		sh.SendDenoms = []string{"hub"}
		sh.DepChains = []string{"ethereum"}
		// a chain started from a genesis file that lists two pending ethereum batches of one token, the newer one first
		// (the module's own walkers are reverse iterators); InitGenesis gives them new sequence numbers in file order
		gi := cfg
		gi.Ops = opsSet("Next", "Exec", "Deposit", "ExtAdvance")
		gi.SendChains = []string{"ethereum"}
		gi.SendDenoms = []string{"hub"}
		gi.DepChains = []string{"ethereum"}
		gi.Seeds = [][]engine.Op{{engine.OpN("Deposit", "ethereum", "hub", "hub", 0, 0), engine.OpN("Next", 5)}}
		gi.GenesisSeq = map[string]uint64{"ethereum": 5}
		gi.GenesisMod = func(g *hub.Genesis) {
			for _, es := range g.Hub.ExternalStates {
				if es.ChainId != "ethereum" {
					continue
				}
				es.Sequence, es.LastOutgoingBatchTxNonce = 5, 2
				for _, n := range []uint64{2, 1} {
					ste := &mhubtypes.SendToExternal{Id: n, Sender: hub.User("u1").String(), ChainId: "ethereum", ExternalRecipient: hub.HexAddr("imp"),
						Token: mhubtypes.ExternalToken{Amount: sdk.NewInt(990), ExternalTokenId: EthHub, TokenId: 1}, Fee: mhubtypes.ExternalToken{Amount: sdk.NewInt(7), ExternalTokenId: EthHub, TokenId: 1},
						ValCommission: mhubtypes.ExternalToken{Amount: sdk.NewInt(10), ExternalTokenId: EthHub, TokenId: 1}, TxHash: fmt.Sprintf("IMPORTED%d", n), RefundAddress: hub.User("u1").String(), RefundChainId: "hub", CreatedAt: 1}
					a, err := mhubtypes.PackOutgoingTx(&mhubtypes.BatchTx{BatchNonce: n, ExternalTokenId: EthHub, Transactions: []*mhubtypes.SendToExternal{ste}, Height: 1, Timeout: 50_000_000, Sequence: 3 + n})
					if err != nil {
						panic(err)
					}
					es.OutgoingTxs = append(es.OutgoingTxs, a)
				}
			}
		}
		// a denom gets a second contract on ethereum (listed before the first, which stays): a batch of the first contract is
		// pending, then a batch of the second one is built and executed - the external chain keeps one batch nonce per contract
		dc := cfg
		dc.Relist = []int{0}
		dc.PayoutsMayFail = true // (the second listing can be taken back while its batch is pending)
		dc.Users = 1
		dc.Ops = opsSet("Next", "Send", "ReqBatch", "Exec", "Dual", "ExtAdvance")
		dc.SendChains = []string{"ethereum"}
		dc.SendDenoms = []string{"hub"}
		dc.DepChains = []string{"ethereum"}
		dc.Fees = dc.Fees[:1]
		dc.Seeds = [][]engine.Op{append(append([]engine.Op{}, seedObserved...), engine.OpN("Send", "ethereum", "hub", 0, 0, 0), engine.OpN("ReqBatch", "ethereum", "hub"), engine.OpN("Dual", 0),
			engine.OpN("Send", "ethereum", "hub", 0, 0, 0), engine.OpN("ReqBatch", "ethereum", "hub"))}
		const weth, ust = "0xC02aaA39b223FE8D0A0e5C4F27eAD9083C756Cc2", "0xa47c8bf37f92aBed4A126BDA807A7b7498661acD"
		return append(append([]MultiCase{{Name: "from observed heights", Spec: NewBridge(a), Cfg: ec},
			{Name: "a denom with two contracts on ethereum, a pending batch of each", Spec: NewBridge(dc), Cfg: ecb},
			{Name: "started from a genesis file with two pending ethereum batches of one token, newest first", Spec: NewBridge(gi), Cfg: ecb}}, execCases(cfg, ecb)...), MultiCase{Name: "from two pending batches of different tokens on ethereum", Spec: NewBridge(bb), Cfg: ecb},
			MultiCase{Name: "from two batches of one token whose timeouts are not monotone", Spec: NewBridge(cc), Cfg: ecb},
			MultiCase{Name: "mixed-case contract ids (0xC02a.. = hub, 0xa47c.. = eth), three pending batches", Spec: NewBridge(mk(weth, ust)), Cfg: ecb},
			MultiCase{Name: "mixed-case contract ids (0xa47c.. = hub, 0xC02a.. = eth), three pending batches", Spec: NewBridge(mk(ust, weth)), Cfg: ecb},
			MultiCase{Name: "transfers whose commission is smaller than the number of validators", Spec: NewBridge(dd), Cfg: ecb},
			MultiCase{Name: "24-decimals token, fee-paying transfers from Minter, fee surplus at execution", Spec: NewBridge(hd), Cfg: ecb},
			MultiCase{Name: "6-decimals token, fee-paying transfers from Minter, fee surplus at execution", Spec: NewBridge(hd6), Cfg: ecb},
			MultiCase{Name: "gas coin price known, token price not attested yet", Spec: NewBridge(pp), Cfg: ecb},
			MultiCase{Name: "two withdrawals of one transaction, one cancelled, the other in a batch", Spec: NewBridge(sh), Cfg: ecb}), bridgeAssumptions(cfg)
	}))
	Register("C15", MultiRunner(func(tier string) ([]MultiCase, []string) {
		cfg, ec := bridgeCfgFor("C15", tier)
		// oracle state with only one of the two lists: holders adopted, no prices ever attested
		ho := cfg
		ho.NoPrices = true
		ho.Ops = opsSet("Next", "Send", "Prices", "Holders")
		ho.Seeds = [][]engine.Op{{engine.OpN("Holders"), engine.OpN("Next", 5), engine.OpN("Next", 5), engine.OpN("Next", 5), engine.OpN("Next", 5), engine.OpN("Next", 5)}}
		ech := ec
		ech.MaxDepth = 3
		ech.Deadline = ec.Deadline / 3
		// a lagging validator (its last claimed nonce behind the observed one) and rotated delegate keys
		lr := cfg
		lr.Ops = opsSet("Next", "Deposit", "Lag", "Rotate", "ObserveSet0", "FakeHeight") // FakeHeight: one validator's claim of the next nonce is pending at the export
		lr.DepDests = []string{"hub"}
		lr.Seeds = [][]engine.Op{{engine.OpN("Deposit", "ethereum", "hub", "hub", 0, 0), engine.OpN("Next", 5)}}
		// parameters at the edge of what their validators admit (governance can set them): zero timeouts and windows, no chain
		// at all (bridge paused), one chain; every one must survive the round trip as it is
		pcase := func(name string, mod func(p *mhubtypes.Params)) MultiCase {
			x := cfg
			x.ParamsMod = mod
			x.Ops = opsSet("Next", "Send", "Deposit")
			x.Seeds = [][]engine.Op{{}}
			e := ec
			e.MaxDepth = 2
			e.Deadline = ec.Deadline / 4
			return MultiCase{Name: "parameters: " + name, Spec: NewBridge(x), Cfg: e}
		}
		// ... and the same values set by governance on the running chain
		gov := cfg
		gov.Ops = opsSet("Next", "Send", "Param")
		gov.Seeds = [][]engine.Op{{}}
		gov.ParamChanges = [][2]string{{"OutgoingTxTimeout", `"0"`}, {"Chains", `[]`}, {"Chains", `["ethereum"]`}, {"SignedSignerSetTxWindow", `"0"`}, {"SignedBatchesWindow", `"0"`},
			{"EthereumSignaturesWindow", `"0"`}, {"UnbondSlashingSignerSetTxsWindow", `"0"`}, {"TargetEthTxTimeout", `"60000"`}, {"AverageBlockTime", `"100"`},
			{"AverageEthereumBlockTime", `"100"`}, {"AverageBscBlockTime", `"100"`}, {"SlashFractionBatch", `"0.000000000000000000"`}, {"ContractHash", `""`},
			{"BridgeChainID", `"0"`}, {"GravityID", `""`}}
		// more key registrations per chain than one page of any paginated walk holds
		many := cfg
		many.Powers = append([]int64{10, 10, 10}, make([]int64, 101)...)
		many.Ops = opsSet("Next", "Deposit")
		many.DepDests = []string{"hub"}
		many.Seeds = [][]engine.Op{{}}
		ecm := ec
		ecm.MaxDepth = 2
		ecm.Deadline = ec.Deadline / 3
		ecg := ec
		ecg.MaxDepth = 3
		ecg.Deadline = ec.Deadline / 3
		// a token list that governance stored in another order than that of the ids (the list is ordered state: lookups take
		// the first matching row)
		ro := cfg
		ro.Ops = opsSet("Next", "Send", "Deposit")
		ro.Seeds = [][]engine.Op{{}}
		ro.GenesisMod = func(g *hub.Genesis) {
			l := g.Hub.TokenInfos.TokenInfos
			for i, t := range l {
				t.Id = uint64(len(l) - i)
			}
		}
		ecro := ec
		ecro.MaxDepth = 2
		ecro.Deadline = ec.Deadline / 4
		// contract ids listed in lower case (nothing validates or normalises the spelling of a listing: every reader compares
		// the id as a string, so the spelling is state)
		lc := cfg
		lc.Tokens = append([]TokenRow{}, cfg.Tokens...)
		for i := range lc.Tokens {
			if strings.HasPrefix(lc.Tokens[i].ExtID, "0x") {
				lc.Tokens[i].ExtID = strings.ToLower(lc.Tokens[i].ExtID)
			}
		}
		lc.Relist = []int{1}
		lc.Ops = opsSet("Next", "Send", "Deposit", "ReqBatch", "Relist")
		// (the list in the store is the one a governance proposal wrote: a row taken off and put back)
		lc.Seeds = [][]engine.Op{{}, {engine.OpN("Relist", 1), engine.OpN("Relist", 1)}}
		// governance has taken the only token of a chain off the list (events of that chain were observed before): the
		// chain's counters and cursors are bridge state all the same
		nt := cfg
		nt.Relist = []int{1} // hub @ bsc, the only bsc row
		nt.Ops = opsSet("Next", "Deposit", "Relist")
		nt.DepChains = []string{"bsc"}
		nt.DepDests = []string{"hub"}
		nt.Seeds = [][]engine.Op{{engine.OpN("Deposit", "bsc", "hub", "hub", 0, 0), engine.OpN("Next", 5), engine.OpN("Relist", 1)}}
		return []MultiCase{{Name: "bridge histories, oracle prices from genesis", Spec: NewBridge(cfg), Cfg: ec}, {Name: "holders adopted, no prices", Spec: NewBridge(ho), Cfg: ech},
			{Name: "token list stored in descending id order", Spec: NewBridge(ro), Cfg: ecro},
			{Name: "a chain with observed events whose only token was taken off the list", Spec: NewBridge(nt), Cfg: ecro},
			{Name: "contract ids listed in lower case", Spec: NewBridge(lc), Cfg: ecro},
			{Name: "a lagging validator, rotated delegate keys", Spec: NewBridge(lr), Cfg: ec},
			pcase("outgoing transfer timeout 0", func(p *mhubtypes.Params) { p.OutgoingTxTimeout = 0 }),
			pcase("no chains (bridge paused)", func(p *mhubtypes.Params) { p.Chains = []string{} }),
			pcase("one chain", func(p *mhubtypes.Params) { p.Chains = []string{"ethereum"} }),
			pcase("all windows 0, slash fractions 0, empty contract hash, bridge chain id 0", func(p *mhubtypes.Params) {
				p.SignedSignerSetTxsWindow, p.SignedBatchesWindow, p.EthereumSignaturesWindow, p.UnbondSlashingSignerSetTxsWindow = 0, 0, 0, 0
				p.SlashFractionSignerSetTx, p.SlashFractionBatch, p.SlashFractionEthereumSignature, p.SlashFractionConflictingEthereumSignature = sdk.ZeroDec(), sdk.ZeroDec(), sdk.ZeroDec(), sdk.ZeroDec()
				p.ContractSourceHash, p.BridgeChainId = "", 0
			}),
			pcase("smallest admitted block times and batch timeout", func(p *mhubtypes.Params) {
				p.TargetEthTxTimeout, p.AverageBlockTime, p.AverageEthereumBlockTime, p.AverageBscBlockTime = 60000, 100, 100, 100
			}),
			{Name: "parameters changed by governance on the running chain", Spec: NewBridge(gov), Cfg: ecg},
			{Name: "104 validators with registered keys (101 of them unbonded candidates)", Spec: NewBridge(many), Cfg: ecm},
		}, bridgeAssumptions(cfg)
	}))
	c10base := MultiRunner(func(tier string) ([]MultiCase, []string) {
		cfg, ec := bridgeCfgFor("C10", tier)
		// batches that time out and are rebuilt: nonces must stay unique and gap-free across cancellations
		to := cfg
		to.Ops = opsSet("Next", "Send", "ReqBatch", "Deposit", "ExtAdvance")
		to.Fees = []int64{7}
		to.SendChains = []string{"ethereum"}
		to.DepChains = []string{"ethereum"}
		to.Seeds = [][]engine.Op{append(append([]engine.Op{}, seedObserved...), engine.OpN("Send", "ethereum", "hub", 0, 0, 0), engine.OpN("ReqBatch", "ethereum", "hub"))}
		ect := ec
		ect.Deadline = ec.Deadline / 2
		// two withdrawals of one hub transaction (one status record), one of them cancelled before batching
		sh := cfg
		sh.Ops = opsSet("Next", "Send", "Send2", "Cancel", "ReqBatch")
		sh.SendChains = []string{"ethereum"}
		sh.SendDenoms = []string{"hub"}
		sh.Fees = []int64{7}
		sh.MaxCancelID = 3
		ecs := ec
		ecs.MaxDepth = 4
		ecs.Deadline = ec.Deadline / 2
		// a pool that is larger than a batch: 100 waiting transfers of one token, then transfers of very different amounts
		// (the commission grows with the amount; only the bridge fee ranks a transfer)
		big := cfg
		big.Ops = opsSet("Next", "Send", "ReqBatch")
		big.SendChains = []string{"ethereum"}
		big.SendDenoms = []string{"hub"}
		big.Amounts = []int64{1000, 1_000_000_000}
		big.Fees = []int64{7, 5, 9}
		big.Seeds = [][]engine.Op{{engine.OpN("SendMany", "ethereum", "hub", 100)}}
		ecb2 := ec
		ecb2.MaxDepth = 3
		ecb2.Deadline = ec.Deadline / 2
		// a chain started from a genesis file that carries pending batches (InitGenesis accepts them; the module's own export
		// never writes them): Minter's outgoing sequence counter stood at 7 when the file was written
		gi := cfg
		gi.Ops = opsSet("Next", "Send", "ReqBatch")
		gi.SendChains = []string{"minter"}
		gi.Fees = []int64{7}
		gi.GenesisSeq = map[string]uint64{"minter": 7}
		gi.GenesisMod = func(g *hub.Genesis) {
			for _, es := range g.Hub.ExternalStates {
				if es.ChainId != "minter" {
					continue
				}
				es.Sequence, es.LastOutgoingBatchTxNonce = 7, 2
				for i, tok := range []string{"1", "12"} {
					ste := &mhubtypes.SendToExternal{Id: uint64(i + 1), Sender: hub.User("u1").String(), ChainId: "minter", ExternalRecipient: hub.HexAddr("imp"),
						Token: mhubtypes.ExternalToken{Amount: sdk.NewInt(990), ExternalTokenId: tok}, Fee: mhubtypes.ExternalToken{Amount: sdk.NewInt(7), ExternalTokenId: tok},
						ValCommission: mhubtypes.ExternalToken{Amount: sdk.NewInt(10), ExternalTokenId: tok}, TxHash: fmt.Sprintf("IMPORTED%d", i), RefundAddress: hub.User("u1").String(), RefundChainId: "hub", CreatedAt: 1}
					a, err := mhubtypes.PackOutgoingTx(&mhubtypes.BatchTx{BatchNonce: uint64(i + 1), ExternalTokenId: tok, Transactions: []*mhubtypes.SendToExternal{ste}, Height: 1, Sequence: uint64(4 + 2*i)})
					if err != nil {
						panic(err)
					}
					es.OutgoingTxs = append(es.OutgoingTxs, a)
				}
			}
		}
		// a 6-decimals token: a withdrawal of less than one external unit still has a place in the pool - ranked by its
		// fee like every other one - although the amount it moves converts to 0 units
		du := cfg
		du.Tokens = stdTokens(6)
		du.Ops = opsSet("Next", "Send", "ReqBatch")
		du.SendChains = []string{"ethereum"}
		du.SendDenoms = []string{"hub"}
		du.Amounts = []int64{600_000_000_000, 5_000_000_000_000}
		du.Fees = []int64{1_000_000_000_000, 5_000_000_000_000}
		ecg := ec
		ecg.MaxDepth = 3
		ecg.Deadline = ec.Deadline / 3
		// governance re-enters the token list under fresh row ids while transfers wait in a pool: a batch is a matter of
		// chain and external token id - the waiting transfers are ranked with the new ones, whatever row they were made under
		rn := cfg
		rn.Ops = opsSet("Next", "Send", "ReqBatch", "Renumber")
		rn.SendChains = []string{"ethereum"}
		rn.SendDenoms = []string{"hub"}
		rn.Users = 1
		rn.Seeds = [][]engine.Op{{}, {engine.OpN("Send", "ethereum", "hub", 0, 0, len(cfg.Fees)-1), engine.OpN("Renumber", 0)}}
		return []MultiCase{{Name: "pools and permissionless requests", Spec: NewBridge(cfg), Cfg: ec},
			{Name: "the token list re-entered under fresh row ids while transfers wait", Spec: NewBridge(rn), Cfg: ect},
			{Name: "6-decimals token, withdrawals of less than one external unit", Spec: NewBridge(du), Cfg: ecs}, {Name: "batches timing out and being rebuilt", Spec: NewBridge(to), Cfg: ect},
			{Name: "started from a genesis file with two pending Minter batches (sequence counter 7)", Spec: NewBridge(gi), Cfg: ecg},
			{Name: "two withdrawals of one transaction, one cancelled", Spec: NewBridge(sh), Cfg: ecs},
			{Name: "a pool of more than 100 transfers of one token, amounts differing by six orders of magnitude", Spec: NewBridge(big), Cfg: ecb2}}, bridgeAssumptions(cfg)
	})
	Register("C10", func(tier string) *Runner {
		b := c10base(tier)
		return &Runner{Replay: b.Replay, Run: func(o RunOpts) Output {
			out := b.Run(o)
			if len(out.Violations) > 0 || out.InternalError != "" {
				return out
			}
			outcomes := map[string]string{}
			for _, cs := range c10HugeCases() {
				res, v := c10RunHuge(hub.New(), cs)
				outcomes[cs.Name] = res
				if v != nil && len(out.Violations) == 0 {
					out.Violations = append(out.Violations, engine.Found{Violation: *v, Reproduced: 5})
				}
			}
			if cov, ok := out.Evidence["coverage"].(map[string]interface{}); ok {
				cov["huge_fee_cases"] = outcomes
				cov["huge_fee_rule"] = "a 24-decimals token, fees of about 2^250 .. 2^255 external units whose sum exceeds 256 bits: the requested batch is still the set of the highest-fee unbatched transfers"
			}
			out.Summary += fmt.Sprintf(" huge_fee_cases=%d", len(outcomes))
			return out
		}}
	})
	for _, p := range []string{"C04", "C12"} {
		prop := p
		Register(prop, MultiRunner(func(tier string) ([]MultiCase, []string) {
			cfg, ec := bridgeCfgFor(prop, tier)
			// governance takes a token off the originating chain's list while a transfer that came from there is
			// pending elsewhere: its expiry refund cannot be issued (and fails half-way through) until the token is listed again
			dl := cfg
			dl.Relist = []int{0, 2} // hub @ ethereum (where the deposits come from), hub @ minter (where hub users send to)
			dl.Users = 1
			dl.Ops = opsSet("Next", "NextTimeout", "Deposit", "Relist", "Send", "ReqBatch")
			dl.SendChains = []string{"minter", "bsc"}
			dl.SendDenoms = []string{"hub"}
			dl.DepChains = []string{"ethereum"}
			dl.DepDests = []string{"minter", "bsc"}
			dl.Fees = dl.Fees[:1]
			pend := []engine.Op{engine.OpN("Next", 5), engine.OpN("Deposit", "ethereum", "hub", "minter", 0, 0), engine.OpN("Next", 5)}
			// the refund of an unbatched transfer is due when the block after its creation has an odd height (no automatic
			// batching) and starts after the timeout: both block parities are explored from the start
			dl.Seeds = [][]engine.Op{{}, {engine.OpN("Next", 5)}, pend, append(append([]engine.Op{}, pend...), engine.OpN("Relist", 0))}
			// two transfers wait in Minter's pool when the token leaves the originating chain's list: the one that came from
			// ethereum (its refund will fail) pays the higher fee, so the expiry sweep meets it first, and a hub user's
			// (its refund succeeds) - at both block parities
			dl.DepFees = []int64{dl.DepFees[0], 9}
			// (a pool entry survives only until the next even block: both are created in one even block, the block after it
			// starts after the timeout, and the token is taken off the list in that block)
			two := []engine.Op{engine.OpN("Deposit", "ethereum", "hub", "minter", 0, 1), engine.OpN("Send", "minter", "hub", 0, 0, 0), engine.OpN("Next", 3601), engine.OpN("Relist", 0)}
			dl.Seeds = append(dl.Seeds, two, append([]engine.Op{engine.OpN("Next", 5)}, two...))
			ecd := ec
			ecd.Deadline = ec.Deadline / 2
			// the token migrates to a new contract (same token id, new external id) while a transfer towards the old
			// contract waits in the pool: a 6-decimals token on ethereum
			rp := cfg
			rp.Repoint = []int{0}
			rp.Users = 1
			rp.Tokens = stdTokens(6)
			rp.Ops = opsSet("Next", "NextTimeout", "Send", "Cancel", "Repoint")
			rp.SendChains = []string{"ethereum"}
			rp.SendDenoms = []string{"hub"}
			rp.Fees = rp.Fees[:1]
			rp.Seeds = [][]engine.Op{{}, {engine.OpN("Next", 5)}}
			// a token table whose rows of one denom share one token id (nothing makes ids unique; the listing of a pool
			// entry is the one of its chain and external id): 6 decimals on ethereum (the first row), 18 on bsc and Minter
			du := cfg
			du.Users = 1
			du.Tokens = stdTokens(6)
			du.Ops = opsSet("Next", "NextTimeout", "Send", "Cancel")
			du.SendChains = []string{"bsc", "minter", "ethereum"}
			du.SendDenoms = []string{"hub"}
			du.Fees = du.Fees[:1]
			du.Seeds = [][]engine.Op{{}, {engine.OpN("Next", 5)}}
			du.GenesisMod = func(g *hub.Genesis) {
				for _, t := range g.Hub.TokenInfos.TokenInfos {
					if t.Denom == "hub" {
						t.Id = 1
					}
				}
			}
			// a chain started from a genesis file that lists two pending transfers in ethereum's pool; the entries name no chain of
			// their own / another chain (the enclosing external state says where they wait - InitGenesis files them there)
			gp := cfg
			gp.Users = 1
			gp.Ops = opsSet("Next", "NextTimeout", "Cancel", "ReqBatch", "Exec", "ExtAdvance")
			gp.SendChains = []string{"ethereum"}
			gp.SendDenoms = []string{"hub"}
			gp.Seeds = [][]engine.Op{{}, {engine.OpN("Next", 5)}}
			gp.GenesisMod = func(g *hub.Genesis) {
				for _, es := range g.Hub.ExternalStates {
					if es.ChainId != "ethereum" {
						continue
					}
					for i, inner := range []string{"", "bsc"} {
						es.UnbatchedSendToExternalTxs = append(es.UnbatchedSendToExternalTxs, &mhubtypes.SendToExternal{Id: uint64(i + 1), Sender: hub.User("u1").String(), ChainId: inner, ExternalRecipient: hub.HexAddr("imp"),
							Token: mhubtypes.ExternalToken{Amount: sdk.NewInt(990), ExternalTokenId: EthHub, TokenId: 1}, Fee: mhubtypes.ExternalToken{Amount: sdk.NewInt(int64(7 + i)), ExternalTokenId: EthHub, TokenId: 1},
							ValCommission: mhubtypes.ExternalToken{Amount: sdk.NewInt(10), ExternalTokenId: EthHub, TokenId: 1}, TxHash: fmt.Sprintf("IMPORTED%d", i+1), RefundAddress: hub.User("u1").String(), RefundChainId: "hub", CreatedAt: uint64(hub.T0)})
					}
				}
			}
			// withdrawals to Minter and ethereum whose recipient is spelled with the prefix 0X
			up := cfg
			up.RcptUpperPrefix = true
			up.Users = 1
			up.Ops = opsSet("Next", "NextTimeout", "Send", "Cancel", "ReqBatch", "Exec")
			up.SendChains = []string{"minter", "ethereum"}
			up.SendDenoms = []string{"hub"}
			up.Fees = up.Fees[:1]
			up.Seeds = [][]engine.Op{{}, {engine.OpN("Next", 5)}}
			cases := []MultiCase{{Name: "bridge histories", Spec: NewBridge(cfg), Cfg: ec},
				{Name: "recipients spelled with the prefix 0X", Spec: NewBridge(up), Cfg: ecd},
				{Name: "started from a genesis file with two transfers waiting in ethereum's pool", Spec: NewBridge(gp), Cfg: ecd},
				{Name: "token migrated to a new contract while a transfer towards the old one is pending", Spec: NewBridge(rp), Cfg: ec},
				{Name: "the listings of one denom share one token id (6 / 18 / 18 decimals)", Spec: NewBridge(du), Cfg: ec},
				{Name: "token taken off the originating chain's list while a transfer from there is pending", Spec: NewBridge(dl), Cfg: ecd}}
			if prop == "C04" {
				cases = append(cases, execCases(cfg, ecd, "NextTimeout", "ReqBatch")...)
			}
			return cases, bridgeAssumptions(cfg)
		}))
	}
}
