#!/usr/bin/env python3
"""Regenerates MANIFEST.json from the table below (single source of truth)."""
import json
ALL = ["C%02d" % i for i in range(1, 21)]
# id -> (category, technique, level text, level note, design ref)
CHECKS = {
 "C03": ("model_checking", "explicit-state BFS over the real keepers (snapshot/restore of the real KV stores), transition oracles",
         "All interleavings of validator claims (ahead, behind, conflicting, repeated) and block boundaries up to the stated depth are executed on the real msg server and EndBlocker; applied-list, Accepted flags, observed nonce and minted balance are checked after every tally.",
         "3 validators, 1 chain, deposit events; scripted staking table; bounds in evidence", "3 C03"),
}
BR = "explicit-state BFS over the closed bridge system (real keepers + reference ledgers for the external chains), transition and state oracles"
CHECKS.update({
 "C01": ("model_checking", BR, "Every history of sends, cancels, batch requests, deposits (hub-bound and cross-chain, with and without fee), relayer executions, external height jumps, expiry and cold-storage proposals up to the depth bound is executed on the real keepers; after every operation supply + in-flight value is compared with the custody ledger in exact rationals, and user balance gains are matched against what was locked or refundable for that user.", "external chains are reference ledgers written from Hub2.sol / the Minter multisig rule; claims built as the orchestrator and connector build them; bounds in evidence", "3 C01"),
 "C02": ("model_checking", "explicit-state BFS per validator power vector over the real msg server and EndBlocker; quorum recomputed with exact integers at every acceptance", "All vote orders by validator accounts, orchestrators, a stranger and an unbonded validator, conflicting claims, power changes / unbonding between vote and tally, over 12 power distributions (totals that make 66*total/100 truncate, exact 50% ties, just-under-66% splits).", "scripted staking table; deposit events only", "3 C02"),
 "C04": ("model_checking", BR, "A registry of every accepted transfer is reconciled with the real pool and batch indexes after every operation and at both block phases: unique ids, exactly one location while pending, terminal only through an applied execution event of the owning batch or a refund, status agrees with location.", "same world as C01; bounds in evidence", "3 C04"),
 "C10": ("model_checking", BR, "Every batch is inspected in the state in which it was created (permissionless requests on any pool, automatic batching): non-empty, <=100, own chain and token only, fee multiset equals the reference top-k selection of that token's pool, nonces gap-free, outgoing sequence numbers unique and never beyond the counter. Token ids include the Minter prefix pair 1 / 12.", "bounds in evidence; batch cap 100 exercised in the thorough tier bulk seed", "3 C10"),
 "C12": ("model_checking", BR, "Cancel by sender / other user / wrong chain / unknown / batched / repeated id and expiry at timeout-5, timeout, timeout+1 seconds, for hub-originated and foreign-originated transfers with 6-decimals external token: success conditions, exact refund of the recorded amount+fee+commission, right party, removal, status.", "C12 alphabet has no hub-bound deposits so that EndBlock balance changes are refunds only", "3 C12"),
 "C13": ("model_checking", BR, "For every batch that leaves the store the cause is recomputed: applied execution event of exactly that batch, observed (stored) external height >= timeout on a non-Minter chain, or a later same-token batch executed on ethereum/bsc; executions must release exactly the older same-token batches.", "3 chains x 2 tokens; external chain accepts executions per Hub2.sol rules", "3 C13"),
})
PENDING = {i: "check not built yet in this session (planned, see DESIGN.md section 3)" for i in ALL if i not in CHECKS}
m = {
 "version": 1,
 "setup_cmd": "cd /verif && bash bin/setup",
 "hooks": {"guard": "verif", "enable": "none needed: checks build an external Go module with `replace github.com/MinterTeam/mhub2/module => /repo/module` (and go build -overlay for generated instrumentation); no guarded source in /repo",
           "baseline_off_cmd": "cd /repo/module && GOFLAGS=-mod=mod GOPROXY=off GOSUMDB=off go test -vet=off -count=1 ./x/...",
           "source_commits": [], "add_only": True},
 "engines": [{"name": "hubmc", "path": "mc", "serves_properties": sorted(CHECKS), "kind_free_text": "hand-written explicit-state model checker (BFS, canonical state hashing, watchdog, straight-line replay) driving the real Go keepers"}],
 "checks": [],
 "not_applicable": [{"property_id": i, "reason": r} for i, r in sorted(PENDING.items())],
 "notes": "bin/check <id> <tier> rebuilds from /repo's working tree on every call.",
}
for i in sorted(CHECKS):
    cat, tech, text, note, ref = CHECKS[i]
    m["checks"].append({
        "property_id": i, "quick_cmd": f"bin/check {i} quick", "thorough_cmd": f"bin/check {i} thorough",
        "evidence_file": f"/verif/evidence/{i}.json", "replay_cmd_template": ".build/hubmc replay {path}",
        "engine": "hubmc", "level_claimed": {"category": cat, "text": text, "design_ref": ref},
        "level_note": note, "technique": tech})
json.dump(m, open("/verif/MANIFEST.json", "w"), indent=1)
print("checks:", len(m["checks"]), "n/a:", len(m["not_applicable"]))
