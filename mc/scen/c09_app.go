package scen

import (
	"fmt"
	"sync"
	"math/big"
	"sort"
	"strings"

	sdk "github.com/cosmos/cosmos-sdk/types"
	stakingtypes "github.com/cosmos/cosmos-sdk/x/staking/types"

	mhubtypes "github.com/MinterTeam/mhub2/module/x/mhub2/types"
	"verifmc/apph"
	"verifmc/engine"
)

// C09 on the application as wired (real x/staking, x/slashing, x/evidence): the signer sets the hub publishes follow
// the REAL validator set. The reference is computed from what the staking and bridge queries answer after each block:
// the set a BeginBlocker publishes is built from the bonded validators and powers the previous block left behind.

type c09AppSnap struct {
	ok    bool
	power map[string]int64             // operator -> consensus power of the bonded validators
	jailed map[string]bool             // operators that are jailed
	keys  map[string]map[string]string // chain -> operator -> external address
}

func c09AppSnapshot(c *apph.Chain) (c09AppSnap, error) {
	s := c09AppSnap{ok: true, power: map[string]int64{}, jailed: map[string]bool{}, keys: map[string]map[string]string{}}
	var vr stakingtypes.QueryValidatorsResponse
	if err := c.Query("/cosmos.staking.v1beta1.Query/Validators", &stakingtypes.QueryValidatorsRequest{}, &vr); err != nil {
		return s, err
	}
	for _, v := range vr.Validators {
		if v.IsBonded() {
			s.power[v.OperatorAddress] = v.ConsensusPower(sdk.DefaultPowerReduction)
		}
		if v.Jailed {
			s.jailed[v.OperatorAddress] = true
		}
	}
	for _, ch := range []string{"ethereum", "minter"} {
		var kr mhubtypes.DelegateKeysResponse
		if err := c.Query("/mhub2.v1.Query/DelegateKeys", &mhubtypes.DelegateKeysRequest{ChainId: ch}, &kr); err != nil {
			return s, err
		}
		s.keys[ch] = map[string]string{}
		for _, k := range kr.DelegateKeys {
			s.keys[ch][k.ValidatorAddress] = k.ExternalAddress
		}
	}
	return s, nil
}

// expected: external address -> normalised power (p * (2^32-1) / total over the key holders, truncated); still, if not nil,
// restricts the members to the validators that are also bonded there (a validator jailed in the block's BeginBlock, before
// the bridge's BeginBlocker, leaves the power index at once while the powers stay those of the last EndBlock)
func (s c09AppSnap) expected(chain string, still map[string]int64) map[string]*big.Int {
	total := int64(0)
	in := func(op string) bool {
		if still != nil {
			if _, ok := still[op]; !ok {
				return false
			}
		}
		_, ok := s.keys[chain][op]
		return ok
	}
	for op, p := range s.power {
		if in(op) {
			total += p
		}
	}
	out := map[string]*big.Int{}
	if total == 0 {
		return out
	}
	for op, p := range s.power {
		if ext := s.keys[chain][op]; in(op) {
			out[strings.ToLower(ext)] = new(big.Int).Div(new(big.Int).Mul(big.NewInt(p), big.NewInt(1<<32-1)), big.NewInt(total))
		}
	}
	return out
}

func c09AppDiff(set *mhubtypes.SignerSetTx, want map[string]*big.Int) *big.Int {
	d := new(big.Int)
	seen := map[string]bool{}
	if set != nil {
		for _, m := range set.Signers {
			k := strings.ToLower(m.ExternalAddress)
			seen[k] = true
			w := want[k]
			if w == nil {
				w = new(big.Int)
			}
			d.Add(d, new(big.Int).Abs(new(big.Int).Sub(new(big.Int).SetUint64(m.Power), w)))
		}
	}
	for k, w := range want {
		if !seen[k] {
			d.Add(d, w)
		}
	}
	return d
}

// c09AppStats: non-vacuity counters of the application-level part (shared by all executions of one search).
var c09AppStats struct {
	sync.Mutex
	SetsPublished, LagChecks, KeyHolderBlocks, JailBlocksWithKeys int
}

func c09AppObserver() appObserver {
	var prev c09AppSnap
	lastNonce := map[string]uint64{}
	return func(c *apph.Chain, op string) *engine.Violation {
		cur, err := c09AppSnapshot(c)
		if err != nil {
			return &engine.Violation{Property: "C09", Rule: "application_query_failed", Site: "app", Detail: err.Error()}
		}
		defer func() { prev = cur }()
		if !prev.ok {
			return nil
		}
		// x/slashing and x/evidence jail in their BeginBlockers, which app.go places before the bridge's: a validator jailed there
		// has left the power index when the bridge compares, so "the then-current validator set" of that BeginBlocker is the
		// previous block's set without it. (Downtime is punished in the BeginBlock AFTER the window has filled - not
		// necessarily in a block whose own commit misses the signature.) A validator jailed by a message of this block
		// (the operator withdrawing its self-delegation) was still in the set when the block began.
		jailBlock := false
		still := map[string]int64{}
		for v, p := range prev.power {
			begunJailed := cur.jailed[v] && !prev.jailed[v] && !((op == "UndelegateAll1" || op == "UndelegateHalf1") && v == sdk.ValAddress(c.Vals[1].Oper).String())
			if begunJailed {
				jailBlock = true
				continue
			}
			still[v] = p
		}
		for _, ch := range []string{"ethereum", "minter"} {
			var lr mhubtypes.SignerSetTxResponse
			if err := c.Query("/mhub2.v1.Query/LatestSignerSetTx", &mhubtypes.LatestSignerSetTxRequest{ChainId: ch}, &lr); err != nil {
				return &engine.Violation{Property: "C09", Rule: "application_query_failed", Site: "app", Detail: err.Error()}
			}
			set := lr.SignerSet
			refs := []map[string]*big.Int{prev.expected(ch, still)}
			limit := new(big.Int).Div(new(big.Int).Mul(big.NewInt(5), big.NewInt(1<<32-1)), big.NewInt(100))
			best := (*big.Int)(nil)
			for _, r := range refs {
				if d := c09AppDiff(set, r); best == nil || d.Cmp(best) < 0 {
					best = d
				}
			}
			c09AppStats.Lock()
			c09AppStats.LagChecks++
			if len(refs[0]) > 0 {
				c09AppStats.KeyHolderBlocks++
				if jailBlock {
					c09AppStats.JailBlocksWithKeys++
				}
			}
			c09AppStats.Unlock()
			if best.Cmp(limit) > 0 {
				return &engine.Violation{Property: "C09", Rule: "latest_set_lags_more_than_5_percent", Site: "createSignerSetTxs (application)",
					Detail: fmt.Sprintf("[the application as wired in app.go, real x/staking] chain %s, block %d (%s): the latest published signer set %s differs from the validator set the block started with (bonded powers %v, keys %v) by %s of 2^32 (more than 5%%)", ch, c.Height, op, c09AppSet(set), prev.power, prev.keys[ch], best)}
			}
			if set != nil && set.Nonce != lastNonce[ch] {
				if set.Nonce < lastNonce[ch] {
					return &engine.Violation{Property: "C09", Rule: "signer_set_nonce_not_increasing", Site: "CreateSignerSetTx (application)", Detail: fmt.Sprintf("chain %s: nonce %d after %d", ch, set.Nonce, lastNonce[ch])}
				}
				lastNonce[ch] = set.Nonce
				c09AppStats.Lock()
				c09AppStats.SetsPublished++
				c09AppStats.Unlock()
				// a set published by this block: exactly the key holders among the bonded validators, each power within one unit,
				// ordered by non-increasing power, total below 2^32
				okRef := false
				for _, r := range refs {
					if len(r) != len(set.Signers) {
						continue
					}
					good := true
					for _, m := range set.Signers {
						w := r[strings.ToLower(m.ExternalAddress)]
						if w == nil || new(big.Int).Abs(new(big.Int).Sub(new(big.Int).SetUint64(m.Power), w)).Cmp(big.NewInt(1)) > 0 {
							good = false
						}
					}
					okRef = okRef || good
				}
				if !okRef {
					return &engine.Violation{Property: "C09", Rule: "published_set_differs_from_bonded_key_holders", Site: "CurrentSignerSet (application)",
						Detail: fmt.Sprintf("[the application as wired in app.go, real x/staking] chain %s, block %d (%s): published %s; bonded powers %v, keys %v", ch, c.Height, op, c09AppSet(set), prev.power, prev.keys[ch])}
				}
				tot := uint64(0)
				for i, m := range set.Signers {
					tot += m.Power
					if i > 0 && set.Signers[i-1].Power < m.Power {
						return &engine.Violation{Property: "C09", Rule: "published_set_not_ordered_by_power", Site: "CurrentSignerSet (application)", Detail: fmt.Sprintf("chain %s: %s", ch, c09AppSet(set))}
					}
				}
				if tot > 1<<32-1 {
					return &engine.Violation{Property: "C09", Rule: "published_set_total_power_above_2_32", Site: "CurrentSignerSet (application)", Detail: fmt.Sprintf("chain %s: %s", ch, c09AppSet(set))}
				}
			}
		}
		return nil
	}
}

func c09AppSet(s *mhubtypes.SignerSetTx) string {
	if s == nil {
		return "<none>"
	}
	var l []string
	for _, m := range s.Signers {
		l = append(l, fmt.Sprintf("%s:%d", m.ExternalAddress[:8], m.Power))
	}
	sort.Strings(l)
	return fmt.Sprintf("nonce %d {%s}", s.Nonce, strings.Join(l, " "))
}
