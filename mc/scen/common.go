// Package scen holds one scenario per property: alphabet, bounds, oracles.
package scen

import (
	"fmt"
	"sort"

	sdk "github.com/cosmos/cosmos-sdk/types"

	"verifmc/engine"
	"verifmc/hub"

	mhubtypes "github.com/MinterTeam/mhub2/module/x/mhub2/types"
	oracletypes "github.com/MinterTeam/mhub2/module/x/oracle/types"
)

// Ghost is scenario-private oracle state carried along a path.
type Ghost interface {
	Clone() Ghost
	// Canon returns the part of the ghost that can influence future oracle verdicts
	// or enabled operations (it is hashed into the state key).
	Canon() string
}

// HState = real hub snapshot + ghost.
type HState struct {
	Snap *hub.Snapshot
	G    Ghost
	key  string
}

func (s *HState) Key() string {
	if s.key == "" {
		s.key = s.Snap.Digest() + "|" + s.G.Canon()
	}
	return s.key
}

// Spec is what a hub-based scenario provides.
type Spec interface {
	ID() string
	Genesis() hub.Genesis
	// SeedPaths: each seed state is genesis followed by these ops (applied straight-line).
	SeedPaths() [][]engine.Op
	NewGhost(in *hub.Instance) Ghost
	Ops(s *HState) []engine.Op
	// Do applies op to the live instance and ghost and evaluates the oracles into st.
	Do(in *hub.Instance, g Ghost, op engine.Op, st *engine.Step)
	// Setup configures a fresh instance (flags such as AnteSeq).
	Setup(in *hub.Instance)
}

// Adapter turns a Spec into an engine.Scenario.
type Adapter struct{ Spec Spec }

type worker struct{ in *hub.Instance }

func (a Adapter) ID() string { return a.Spec.ID() }

func (a Adapter) NewWorker() engine.Worker {
	in := hub.New()
	a.Spec.Setup(in)
	return &worker{in: in}
}

func (a Adapter) buildSeed(w *worker, i int) (*HState, Ghost) {
	in := w.in
	in.InitGenesis(a.Spec.Genesis())
	g := a.Spec.NewGhost(in)
	for _, op := range a.Spec.SeedPaths()[i] {
		var st engine.Step
		a.Spec.Do(in, g, op, &st)
		// violations while constructing a seed are not reported here: seeds are only starting points,
		// the same transitions are checked when the search reaches them (or, for known findings,
		// are already recorded); a seed that cannot be built is a harness error
		if st.Pruned != "" {
			panic(fmt.Sprintf("seed path %d op %s: pruned %s", i, op, st.Pruned))
		}
	}
	return &HState{Snap: in.Snapshot(), G: g}, g
}

func (a Adapter) Seeds(w engine.Worker) []engine.State {
	var out []engine.State
	for i := range a.Spec.SeedPaths() {
		s, _ := a.buildSeed(w.(*worker), i)
		out = append(out, s)
	}
	return out
}

func (a Adapter) Ops(s engine.State) []engine.Op { return a.Spec.Ops(s.(*HState)) }

func (a Adapter) Apply(w engine.Worker, s engine.State, op engine.Op) engine.Step {
	in := w.(*worker).in
	hs := s.(*HState)
	in.Restore(hs.Snap)
	g := hs.G.Clone()
	var st engine.Step
	a.Spec.Do(in, g, op, &st)
	if st.Pruned == "" {
		st.Next = &HState{Snap: in.Snapshot(), G: g}
	}
	return st
}

func (a Adapter) Replay(w engine.Worker, seed int, ops []engine.Op) (engine.State, []engine.Step) {
	ww := w.(*worker)
	_, g := a.buildSeed(ww, seed)
	var steps []engine.Step
	for _, op := range ops {
		var st engine.Step
		a.Spec.Do(ww.in, g, op, &st)
		steps = append(steps, st)
		if st.Pruned != "" {
			return nil, steps
		}
	}
	return &HState{Snap: ww.in.Snapshot(), G: g}, steps
}

// ---------------------------------------------------------------------------------------------
// shared world pieces

var (
	EthHub  = "0xA091Bb826756eA25114c512B916754b3fBCb4f63" // token "hub" on ethereum (default genesis)
	BscHub  = "0xf7413144696C5E5502307A8015c6359965CAA725"
	EthEth  = "0x0a180A76e4466bF68A7F86fB029BEd3cCcFaAac5"
	AllExtChains = []string{"ethereum", "minter", "bsc"}
)

// StdGenesis: n validators with the given powers (0 power = present but unbonded),
// delegate keys registered on every external chain through genesis, users funded.
func StdGenesis(vals []hub.Validator, powers []int64, users []sdk.AccAddress, bal sdk.Coins) hub.Genesis {
	g := hub.Genesis{Hub: *mhubtypes.DefaultGenesisState(), Oracle: *oracletypes.DefaultGenesisState()}
	g.Balances = map[string]sdk.Coins{}
	for i, v := range vals {
		g.Accounts = append(g.Accounts, v.Acc, v.Orch)
		g.Staking = append(g.Staking, hub.ValState{Oper: v.Oper.String(), Bonded: powers[i] > 0, Power: powers[i]})
	}
	for _, c := range AllExtChains {
		es := &mhubtypes.ExternalState{ChainId: c, LatestBlockHeight: mhubtypes.LatestBlockHeight{}}
		for _, v := range vals {
			es.DelegateKeys = append(es.DelegateKeys, &mhubtypes.MsgDelegateKeys{
				ValidatorAddress: v.Oper.String(), OrchestratorAddress: v.Orch.String(),
				ExternalAddress: v.Eth.Hex(), EthSignature: []byte{1}, ChainId: c,
			})
		}
		g.Hub.ExternalStates = append(g.Hub.ExternalStates, es)
	}
	for _, u := range users {
		g.Accounts = append(g.Accounts, u)
		if !bal.Empty() {
			g.Balances[u.String()] = bal
		}
	}
	return g
}

func sortedKeys(m map[string]int) []string {
	var ks []string
	for k := range m {
		ks = append(ks, k)
	}
	sort.Strings(ks)
	return ks
}

// BlockFailure records a Begin/EndBlocker panic as a pruned successor for every
// scenario except C05 ("one alarm, one property").
func BlockFailure(st *engine.Step, p *hub.Panic) bool {
	if p == nil {
		return false
	}
	st.Pruned = "pruned_block_failure"
	return true
}
