#!/bin/bash
# usage: SEED_REPO=<checkout> SEED_VERIF=<copy of /verif> run_lane.sh <patch> <check id>...
# Like run.sh, but against another checkout and another copy of the machinery (used while /repo and /verif are
# occupied by a long background job).
P=$1; shift
R=${SEED_REPO:?}; V=${SEED_VERIF:?}
cd $R && git apply --check $P || { echo "patch does not apply to $R"; exit 2; }
git apply $P
for id in "$@"; do
  out=$(cd $V && VERIF_REPO=$R bin/check $id ${TIER:-quick} 2>&1); rc=$?
  echo "$id rc=$rc $(echo "$out" | grep -m2 -A2 '^VIOLATION' | tr '\n' ' ' | cut -c1-600)"
done
cd $R && git apply -R $P && git status --short | head -3
