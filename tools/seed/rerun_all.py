#!/usr/bin/env python3
"""Re-runs every kept seeded change against the quick checks recorded for it (its own property's check, every check
tried before) and rewrites meta.json's checks_run / caught_by.  Applies patches to /repo one at a time."""
import json, os, re, subprocess, sys, glob
ids = sys.argv[1:] or sorted(os.path.basename(d) for d in glob.glob('/verif/seeded/C*'))
miss = []
for i in ids:
    mp = f'/verif/seeded/{i}/meta.json'
    m = json.load(open(mp))
    checks = sorted(set([m['property']] + list(m.get('checks_run', {}).keys()) + m.get('caught_by', [])))
    runner = '/verif/tools/seed/run_lane.sh' if os.environ.get('SEED_REPO') else '/verif/tools/seed/run.sh'
    r = subprocess.run([runner, f'/verif/seeded/{i}/patch.diff'] + checks, stdout=subprocess.PIPE, stderr=subprocess.STDOUT, text=True).stdout
    res = {}
    for line in r.splitlines():
        mm = re.match(r'(C\d\d) rc=(\d+) ?(.*)', line)
        if mm:
            res[mm.group(1)] = {'exit': int(mm.group(2)), 'first_violation': mm.group(3)[:400]}
    if not res:
        print(i, 'NOT RUN:', r[-200:]); miss.append(i); continue
    m['checks_run'] = res
    m['caught_by'] = sorted(k for k, x in res.items() if x['exit'] == 1)
    json.dump(m, open(mp, 'w'), indent=1)
    print(i, 'caught_by', m['caught_by'], 'crashed' if any(x['exit'] not in (0, 1) for x in res.values()) else '')
    if not m['caught_by']:
        miss.append(i)
print('NOT CAUGHT:', miss)
