package scen

import (
	"fmt"
	"math/big"
	"sort"
	"strings"
	"time"

	sdk "github.com/cosmos/cosmos-sdk/types"

	"verifmc/engine"
	"verifmc/hub"

	mhubtypes "github.com/MinterTeam/mhub2/module/x/mhub2/types"
	oracletypes "github.com/MinterTeam/mhub2/module/x/oracle/types"
)

// C09: signer sets mirror bonded voting power.
type C09 struct {
	Vals   []hub.Validator
	Chains []string
	Stakes []int64
	Seed   []engine.Op
	Seeds  [][]engine.Op // further start states
	Extra  bool // jailing before BeginBlocker, observed signer sets, long quiet periods
	ParamChains []string // when set: the Chains parameter (order matters to nobody: every listed external chain is served)
}

func NewC09(n int) *C09 {
	c := &C09{Chains: []string{"ethereum", "minter"}, Stakes: []int64{1, 2, 1_000_000, 1 << 40}}
	for i := 0; i < n; i++ {
		c.Vals = append(c.Vals, hub.NewValidator(string(rune('A'+i))))
	}
	return c
}

func (c *C09) ID() string               { return "C09" }
func (c *C09) Setup(in *hub.Instance)   { in.AnteSeq = true }
func (c *C09) SeedPaths() [][]engine.Op { return append([][]engine.Op{c.Seed}, c.Seeds...) }
func (c *C09) Genesis() hub.Genesis {
	g := hub.Genesis{Hub: *mhubtypes.DefaultGenesisState(), Oracle: *oracletypes.DefaultGenesisState()}
	if c.ParamChains != nil {
		p := *g.Hub.Params
		p.Chains = append([]string{}, c.ParamChains...)
		g.Hub.Params = &p
	}
	for _, v := range c.Vals {
		g.Accounts = append(g.Accounts, v.Acc, v.Orch)
		g.Staking = append(g.Staking, hub.ValState{Oper: v.Oper.String(), Bonded: true, Power: 1})
	}
	return g
}

type c09Ghost struct {
	MaxNonce map[string]uint64
	Reg      map[string]bool // chain/val registered
}

func (g *c09Ghost) Clone() Ghost {
	return &c09Ghost{MaxNonce: cloneU(g.MaxNonce), Reg: cloneB(g.Reg)}
}
func (g *c09Ghost) Canon() string { return canonMap(g.MaxNonce) + "#" + canonMap(g.Reg) }
func (c *C09) NewGhost(in *hub.Instance) Ghost {
	g := &c09Ghost{MaxNonce: map[string]uint64{}, Reg: map[string]bool{}}
	for _, ch := range AllExtChains {
		if l := in.Hub.GetLatestSignerSetTx(in.Ctx(), mhubtypes.ChainID(ch)); l != nil {
			g.MaxNonce[ch] = l.Nonce
		}
	}
	return g
}

func (c *C09) Ops(s *HState) []engine.Op {
	ops := []engine.Op{engine.OpN("Next")}
	g := s.G.(*c09Ghost)
	for v := range c.Vals {
		for i := range c.Stakes {
			ops = append(ops, engine.OpN("SetStake", v, i))
		}
		ops = append(ops, engine.OpN("Unbond", v), engine.OpN("Rebond", v))
		if c.Extra {
			ops = append(ops, engine.OpN("JailNext", v))
		}
		for _, ch := range c.Chains {
			if !g.Reg[fmt.Sprintf("%s/%d", ch, v)] {
				ops = append(ops, engine.OpN("Reg", ch, v))
			}
		}
	}
	if c.Extra {
		ops = append(ops, engine.OpN("Observe", "ethereum"), engine.OpN("Idle"))
	}
	return ops
}

func (c *C09) Do(in *hub.Instance, gg Ghost, op engine.Op, st *engine.Step) {
	g := gg.(*c09Ghost)
	switch op.Kind {
	case "SetStake":
		in.ValSetPower(int(op.I[0]), c.Stakes[op.I[1]])
	case "Unbond":
		in.ValUnbond(int(op.I[0]))
	case "Rebond":
		in.ValRebond(int(op.I[0]))
	case "Reg":
		v := c.Vals[op.I[0]]
		seq, _ := in.Acc.GetSequence(in.Ctx(), v.Acc)
		r := in.DeliverMsg(hub.DelegateKeysMsg(in.Cdc, v, op.S[0], v.Orch, v.EthKey, seq))
		if r.OK() {
			g.Reg[fmt.Sprintf("%s/%d", op.S[0], op.I[0])] = true
		}
		st.Obs = fmt.Sprint(r.OK())
	case "Next":
		if p := in.EndBlock(); BlockFailure(st, p) {
			return
		}
		c.begin(in, g, st)
	case "JailNext":
		// x/slashing (downtime) or x/evidence (double sign) jails the validator in its BeginBlocker, which runs
		// before mhub2's: the validator is out of the power index at once, last powers are refreshed at the EndBlocker
		if p := in.EndBlock(); BlockFailure(st, p) {
			return
		}
		if in.Staking.Vals[op.I[0]].Bonded {
			in.ValJail(int(op.I[0]))
		}
		c.begin(in, g, st)
	case "Idle":
		// more than SignedSignerSetTxsWindow (10000) blocks in which nothing happens
		if p := in.EndBlock(); BlockFailure(st, p) {
			return
		}
		in.Height += 10005
		in.Time += 10005 * 5
		c.begin(in, g, st)
	case "Observe":
		// the latest signer set was relayed; every validator reports its execution event (own accounts: no keys needed)
		ch := mhubtypes.ChainID(op.S[0])
		l := in.Hub.GetLatestSignerSetTx(in.Ctx(), ch)
		if l == nil {
			return
		}
		n := in.Hub.GetLastObservedEventNonce(in.Ctx(), ch) + 1
		ev := &mhubtypes.SignerSetTxExecutedEvent{EventNonce: n, SignerSetTxNonce: l.Nonce, ExternalHeight: 100 + n, Members: l.Signers, TxHash: fmt.Sprintf("0xss%d", n)}
		ok := 0
		for i, v := range c.Vals {
			if in.Staking.Vals[i].Bonded && in.DeliverMsg(hub.EventMsg(v.Acc, op.S[0], ev)).OK() {
				ok++
			}
		}
		st.Obs = fmt.Sprint(ok)
	}
}

func permutations(n int) [][]int {
	if n == 0 {
		return [][]int{{}}
	}
	var out [][]int
	var rec func(cur []int, used []bool)
	rec = func(cur []int, used []bool) {
		if len(cur) == n {
			out = append(out, append([]int(nil), cur...))
			return
		}
		for i := 0; i < n; i++ {
			if !used[i] {
				used[i] = true
				rec(append(cur, i), used)
				used[i] = false
			}
		}
	}
	rec(nil, make([]bool, n))
	return out
}

func (c *C09) begin(in *hub.Instance, g *c09Ghost, st *engine.Step) {
	// E2: the BeginBlocker must produce the same state for every order in which staking returns
	// the bonded validators (that is what "deterministic tie-break" means operationally)
	boundary := in.Snapshot()
	nb := 0
	for _, v := range in.Staking.Vals {
		if v.Bonded && !v.Jailed {
			nb++
		}
	}
	ref := ""
	for i, perm := range permutations(nb) {
		in.RestoreClosed(boundary)
		in.Staking.Order = perm
		if p := in.BeginBlock(5); p != nil {
			in.Staking.Order = nil
			BlockFailure(st, p)
			return
		}
		d := in.Snapshot().StoreDigest(mhubtypes.StoreKey)
		if i == 0 {
			ref = d
		} else if d != ref {
			st.Violate("C09", "signer_set_depends_on_validator_return_order", "ExternalSigners.Sort/CurrentSignerSet", "BeginBlocker state differs when staking returns bonded validators in order %v", perm)
		}
		st.Count("return_orders_tried", 1)
	}
	in.RestoreClosed(boundary)
	in.Staking.Order = nil
	preNonce := map[string]uint64{}
	preSets := map[string]string{} // chain/nonce -> the stored set, as published
	for _, ch := range AllExtChains {
		preNonce[ch] = in.Hub.GetLatestSignerSetTxNonce(in.Ctx(), mhubtypes.ChainID(ch))
		for _, ss := range in.Hub.GetSignerSetTxs(in.Ctx(), mhubtypes.ChainID(ch)) {
			preSets[fmt.Sprintf("%s/%d", ch, ss.Nonce)] = ss.String()
		}
	}
	if p := in.BeginBlock(5); BlockFailure(st, p) {
		return
	}
	ctx := in.Ctx()
	max32 := new(big.Int).SetUint64(1<<32 - 1)
	chains := AllExtChains
	if c.ParamChains != nil {
		chains = nil
		for _, ch := range c.ParamChains {
			if ch != "hub" {
				chains = append(chains, ch)
			}
		}
	}
	for _, ch := range chains {
		chain := mhubtypes.ChainID(ch)
		// reference: bonded validators with a key on this chain
		type mem struct {
			ext   string
			stake int64
		}
		var members []mem
		tot := new(big.Int)
		for i, v := range in.Staking.Vals {
			if !v.Bonded || v.Jailed {
				continue // a jailed validator has left the power index (and with it the set of bonded validators)
			}
			ext := in.Hub.GetValidatorExternalAddress(ctx, chain, c.Vals[i].Oper)
			if ext.Hex() == "0x0000000000000000000000000000000000000000" {
				continue
			}
			members = append(members, mem{ext.Hex(), v.Power})
			tot.Add(tot, big.NewInt(v.Power))
		}
		refPower := func(stake int64) *big.Rat {
			if tot.Sign() == 0 {
				return new(big.Rat)
			}
			return new(big.Rat).SetFrac(new(big.Int).Mul(big.NewInt(stake), max32), tot)
		}
		// a published set stays what it is: validators have signed its checkpoint, relayers hold the signatures
		for _, ss := range in.Hub.GetSignerSetTxs(ctx, chain) {
			if was, ok := preSets[fmt.Sprintf("%s/%d", ch, ss.Nonce)]; ok && was != ss.String() {
				st.Violate("C09", "signer_set_nonce_not_increasing", "incrementLatestSignerSetTxNonce", "chain %s: a new set was published under nonce %d, which an earlier set already carries (that set has been replaced)", ch, ss.Nonce)
			}
		}
		latest := in.Hub.GetLatestSignerSetTx(ctx, chain)
		postNonce := in.Hub.GetLatestSignerSetTxNonce(ctx, chain)
		if postNonce > preNonce[ch] {
			st.Count("signer_sets_published", 1)
			if latest == nil || latest.Nonce != postNonce {
				st.Violate("C09", "published_set_missing", "CreateSignerSetTx", "chain %s nonce %d", ch, postNonce)
				continue
			}
			if latest.Nonce <= g.MaxNonce[ch] {
				st.Violate("C09", "signer_set_nonce_not_increasing", "incrementLatestSignerSetTxNonce", "chain %s: nonce %d after %d", ch, latest.Nonce, g.MaxNonce[ch])
			}
			g.MaxNonce[ch] = latest.Nonce
			// membership
			got := map[string]uint64{}
			for _, s := range latest.Signers {
				got[s.ExternalAddress] = s.Power
			}
			if len(got) != len(latest.Signers) {
				st.Violate("C09", "duplicate_member", "CurrentSignerSet", "chain %s: %v", ch, latest.Signers)
			}
			if len(got) != len(members) {
				st.Violate("C09", "membership_mismatch", "CurrentSignerSet", "chain %s: published %d members, %d bonded validators have a key", ch, len(got), len(members))
			}
			sum := new(big.Int)
			for _, m := range members {
				p, ok := got[m.ext]
				if !ok {
					st.Violate("C09", "membership_mismatch", "CurrentSignerSet", "chain %s: bonded validator with key %s missing", ch, m.ext)
					continue
				}
				sum.Add(sum, new(big.Int).SetUint64(p))
				diff := new(big.Rat).Sub(new(big.Rat).SetInt(new(big.Int).SetUint64(p)), refPower(m.stake))
				if diff.Cmp(big.NewRat(1, 1)) >= 0 || diff.Cmp(big.NewRat(-1, 1)) <= 0 {
					st.Violate("C09", "power_not_proportional", "CurrentSignerSet", "chain %s: %s has power %d, stake share gives %s", ch, m.ext, p, refPower(m.stake).FloatString(3))
				}
			}
			if sum.Cmp(max32) > 0 {
				st.Violate("C09", "total_power_exceeds_2_32", "CurrentSignerSet", "chain %s: total %s", ch, sum)
			}
			for i := 1; i < len(latest.Signers); i++ {
				if latest.Signers[i].Power > latest.Signers[i-1].Power {
					st.Violate("C09", "members_not_sorted_by_power", "ExternalSigners.Sort", "chain %s: %v", ch, latest.Signers)
				}
			}
		}
		// 5% rule after every BeginBlocker: 20 * sum|cur - latest| <= 2^32-1 (exact integers)
		if latest != nil {
			// reference current set: floor(stake * (2^32-1) / total) per bonded validator with a key
			m := map[string]int64{}
			for _, mb := range members {
				rp := refPower(mb.stake)
				m[mb.ext] += new(big.Int).Quo(rp.Num(), rp.Denom()).Int64()
			}
			for _, s := range latest.Signers {
				m[s.ExternalAddress] -= int64(s.Power)
			}
			delta := new(big.Int)
			for _, d := range m {
				if d < 0 {
					d = -d
				}
				delta.Add(delta, big.NewInt(d))
			}
			// one unit of rounding per member is allowed on top of the 5 %
			if new(big.Int).Mul(new(big.Int).Sub(delta, big.NewInt(int64(len(m)))), big.NewInt(20)).Cmp(max32) > 0 {
				var ks []string
				for k, v := range m {
					ks = append(ks, fmt.Sprintf("%s:%d", k[:8], v))
				}
				sort.Strings(ks)
				st.Violate("C09", "latest_set_lags_more_than_5_percent", "createSignerSetTxs/PowerDiff", "chain %s: normalised power difference %s (> 5%% of 2^32): %s", ch, delta, strings.Join(ks, " "))
			}
		} else {
			st.Violate("C09", "no_signer_set_after_begin_block", "createSignerSetTxs", "chain %s", ch)
		}
	}
	st.Obs = "next"
}

var _ = sdk.NewInt

// c09Extra: three validators with distinct stakes and ethereum keys; the latest set has been observed as executed.
func c09Extra() *C09 {
	c := NewC09(3)
	c.Extra = true
	c.Chains = []string{"ethereum"}
	c.Stakes = []int64{2, 1_000_000}
	c.Seed = []engine.Op{engine.OpN("Reg", "ethereum", 0), engine.OpN("Reg", "ethereum", 1), engine.OpN("Reg", "ethereum", 2), engine.OpN("SetStake", 0, 0), engine.OpN("Next"),
		engine.OpN("Observe", "ethereum"), engine.OpN("Next")}
	// second start state: the stake has moved since and a newer set (not relayed yet) has been published: the latest
	// published set and the last observed one differ
	c.Seeds = [][]engine.Op{append(append([]engine.Op{}, c.Seed...), engine.OpN("SetStake", 0, 1), engine.OpN("Next"))}
	return c
}

// c09Order: the Chains parameter lists the pseudo chain "hub" before an external chain.
func c09Order(chains []string) *C09 {
	c := NewC09(3)
	c.ParamChains = chains
	c.Chains = nil
	for _, ch := range chains {
		if ch != "hub" {
			c.Chains = append(c.Chains, ch)
		}
	}
	return c
}

// c09Small: four validators with keys, one holds 4% (1 of 25): its departure moves 8% of normalised power.
func c09Small() *C09 {
	c := NewC09(4)
	c.Chains = []string{"ethereum"}
	c.Stakes = []int64{1, 8}
	c.Seed = []engine.Op{engine.OpN("Reg", "ethereum", 0), engine.OpN("Reg", "ethereum", 1), engine.OpN("Reg", "ethereum", 2), engine.OpN("Reg", "ethereum", 3),
		engine.OpN("SetStake", 1, 1), engine.OpN("SetStake", 2, 1), engine.OpN("SetStake", 3, 1), engine.OpN("Next")}
	c.Extra = true
	return c
}

func init() {
	c09base := MultiRunner(func(tier string) ([]MultiCase, []string) {
		d3, d4, dl := 5, 4, 60*time.Second
		if tier == "thorough" {
			d3, d4, dl = 6, 5, 10*time.Minute
		}
		return []MultiCase{
				{Name: "3 validators", Spec: NewC09(3), Cfg: engine.Config{MaxDepth: d3, Deadline: dl, ReplayLeaf: 20}},
				{Name: "4 validators", Spec: NewC09(4), Cfg: engine.Config{MaxDepth: d4, Deadline: dl, ReplayLeaf: 20}},
				{Name: "1 validator", Spec: NewC09(1), Cfg: engine.Config{MaxDepth: d3 + 1, Deadline: dl, ReplayLeaf: 20}},
				{Name: "3 validators with keys: jailing before BeginBlocker, observed sets, quiet periods", Spec: c09Extra(), Cfg: engine.Config{MaxDepth: d4, Deadline: dl, ReplayLeaf: 20}},
				{Name: "stakes 1/8/8/8 with keys: a 4% validator leaves, is jailed, returns", Spec: c09Small(), Cfg: engine.Config{MaxDepth: d4 - 1, Deadline: dl, ReplayLeaf: 20}},
				{Name: "Chains parameter in another order: hub, minter, ethereum", Spec: c09Order([]string{"hub", "minter", "ethereum"}), Cfg: engine.Config{MaxDepth: d4 - 1, Deadline: dl, ReplayLeaf: 20}},
				{Name: "Chains parameter in another order: ethereum, hub, bsc", Spec: c09Order([]string{"ethereum", "hub", "bsc"}), Cfg: engine.Config{MaxDepth: d4 - 1, Deadline: dl, ReplayLeaf: 20}},
			}, []string{
				"stakes {1,2,10^6,2^40} (ties, one dominant validator), bond/unbond, key registration per chain through the real MsgDelegateKeys; all validators start bonded with stake 1 and no keys",
				"a published set is checked in the BeginBlocker that publishes it; the 5% rule is checked after every BeginBlocker with exact integers",
				"tie-break determinism = identical mhub2 store after BeginBlocker under every permutation of the order in which the staking keeper returns bonded validators",
				"second part: the application as wired in app.go (real x/staking, x/slashing, x/evidence; three genesis validators, two of which register keys by message) explored over application hashes like C05's second part; after every block the latest signer set of ethereum and minter (LatestSignerSetTx query) is compared with the bonded validators, powers (staking Validators query) and keys (DelegateKeys query) the previous block left behind; in a block in which x/slashing or x/evidence may jail a validator before the bridge's BeginBlocker the state after the block is accepted as reference too",
			}
	})
	Register("C09", func(tier string) *Runner {
		b := c09base(tier)
		return &Runner{Replay: func(t string, seed int, ops []engine.Op) []engine.Violation {
			if len(ops) > 0 && strings.HasPrefix(ops[0].Kind, "App:") {
				return c09AppReplay(ops)
			}
			return b.Replay(t, seed, ops)
		}, Run: func(o RunOpts) Output {
			out := b.Run(o)
			if len(out.Violations) > 0 || out.InternalError != "" {
				return out
			}
			cov, found := appSearch(o.Tier, o.Workers, c09AppObserver)
			cov["application_signer_sets_published_and_checked"] = c09AppStats.SetsPublished
			cov["application_five_percent_checks"] = c09AppStats.LagChecks
			cov["application_five_percent_checks_with_key_holders"] = c09AppStats.KeyHolderBlocks
			cov["application_jail_blocks_with_key_holders"] = c09AppStats.JailBlocksWithKeys
			if c, ok := out.Evidence["coverage"].(map[string]interface{}); ok {
				for k, v := range cov {
					c[k] = v
				}
			}
			if found != nil {
				n := 0
				for i := 0; i < 5; i++ {
					if len(c09AppReplay(found.Path)) > 0 {
						n++
					}
				}
				found.Reproduced = n
				if n == 5 {
					out.Violations = append(out.Violations, *found)
				} else {
					out.InternalError = fmt.Sprintf("application path %v failed once and %d of 5 times when replayed", found.Path, n)
				}
			}
			out.Summary += fmt.Sprintf(" app_states=%v app_transitions=%v app_sets_checked=%v", cov["application_states"], cov["application_transitions"], cov["application_signer_sets_published_and_checked"])
			return out
		}}
	})
}

func c09AppReplay(ops []engine.Op) []engine.Violation { return appReplay(ops, c09AppObserver) }

// appReplay re-executes an "App:" path with an observer.
func appReplay(ops []engine.Op, mkObs func() appObserver) []engine.Violation {
	var path []int
	for _, o := range ops {
		name := strings.TrimPrefix(o.Kind, "App:")
		for i, n := range c05AppOps {
			if n == name {
				path = append(path, i)
			}
		}
	}
	r := appExec(path, 3, mkObs)
	if r.Fail != nil {
		return []engine.Violation{c05AppViolation(path, r).Violation}
	}
	if r.Obs != nil {
		return []engine.Violation{*r.Obs}
	}
	return nil
}
