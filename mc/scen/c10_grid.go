package scen

import (
	"fmt"
	"math/big"

	sdk "github.com/cosmos/cosmos-sdk/types"

	mhubtypes "github.com/MinterTeam/mhub2/module/x/mhub2/types"
	"verifmc/engine"
	"verifmc/hub"
)

// C10 at the top of the amount range: a token with 24 external decimals, withdrawals whose fees - in external units - are
// of the order 2^250 .. 2^255, so that the fees of one batch add up to more than 256 bits. The batch is still the set of
// the highest-fee unbatched transfers of the token (whatever later valuation of the batch cannot represent).
type c10HugeCase struct {
	Name string
	Fees []*big.Int // hub units, in the order the transfers are sent
}

func c10HugeCases() []c10HugeCase {
	p := func(n uint) *big.Int { return new(big.Int).Lsh(big.NewInt(1), n) }
	mk := func(n int, bits uint) []*big.Int {
		l := []*big.Int{big.NewInt(5)}
		for i := 0; i < n; i++ {
			l = append(l, new(big.Int).Add(p(bits), big.NewInt(int64(i))))
		}
		return append(l, big.NewInt(7))
	}
	return []c10HugeCase{
		{"ten fees of about 2^253 external units between two small ones", mk(10, 233)},
		{"seventy fees of about 2^250 external units between two small ones", mk(70, 230)},
		{"three fees of about 2^253 external units between two small ones (no overflow)", mk(3, 233)},
	}
}

func c10RunHuge(in *hub.Instance, cs c10HugeCase) (string, *engine.Violation) {
	vals := []hub.Validator{hub.NewValidator("A"), hub.NewValidator("B"), hub.NewValidator("C")}
	user := hub.User("u1")
	bal := sdk.NewCoins(sdk.NewCoin("hub", sdk.NewIntFromBigInt(new(big.Int).Lsh(big.NewInt(1), 245))))
	g := StdGenesis(vals, []int64{10, 10, 10}, []sdk.AccAddress{user}, bal)
	for _, t := range g.Hub.TokenInfos.TokenInfos {
		if t.Denom == "hub" && t.ChainId == "ethereum" {
			t.ExternalDecimals = 24
		}
	}
	in.InitGenesis(g)
	sent := 0
	for i, f := range cs.Fees {
		amt := big.NewInt(1000)
		if f.BitLen() > 60 {
			amt = new(big.Int).Lsh(f, 1) // the commission is charged on amount + fee and has to leave something of the amount
		}
		r := in.DeliverMsg(mhubtypes.NewMsgSendToExternal("ethereum", user, hub.HexAddr(fmt.Sprintf("huge%d", i)), sdk.NewCoin("hub", sdk.NewIntFromBigInt(amt)), sdk.NewCoin("hub", sdk.NewIntFromBigInt(f))))
		if r.OK() {
			sent++
		}
	}
	if sent != len(cs.Fees) {
		return fmt.Sprintf("only %d of %d sends accepted", sent, len(cs.Fees)), nil
	}
	if r := in.DeliverMsg(&mhubtypes.MsgRequestBatchTx{ChainId: "ethereum", Denom: "hub", Signer: user.String()}); !r.OK() {
		return "batch request refused", &engine.Violation{Property: "C10", Rule: "batch_request_refused_with_unbatched_transfers", Site: "BuildBatchTx", Detail: fmt.Sprintf("%s: %d transfers wait, the request failed: %v", cs.Name, sent, r.Err)}
	}
	ctx := in.Ctx()
	var batch *mhubtypes.BatchTx
	in.Hub.IterateOutgoingTxsByType(ctx, "ethereum", mhubtypes.BatchTxPrefixByte, func(_ []byte, o mhubtypes.OutgoingTx) bool {
		batch = o.(*mhubtypes.BatchTx)
		return true
	})
	if batch == nil || len(batch.Transactions) == 0 {
		return "no batch", &engine.Violation{Property: "C10", Rule: "empty_or_missing_batch", Site: "BuildBatchTx", Detail: cs.Name}
	}
	minIn := batch.Transactions[0].Fee.Amount
	for _, t := range batch.Transactions {
		if t.Fee.Amount.LT(minIn) {
			minIn = t.Fee.Amount
		}
	}
	var bad *engine.Violation
	left := 0
	in.Hub.IterateUnbatchedSendToExternals(ctx, "ethereum", func(s *mhubtypes.SendToExternal) bool {
		left++
		if s.Fee.Amount.GT(minIn) && bad == nil {
			bad = &engine.Violation{Property: "C10", Rule: "not_highest_fee_selection", Site: "BuildBatchTx",
				Detail: fmt.Sprintf("%s: transfer %d paying %s external units is left unbatched while the batch holds one paying %s", cs.Name, s.Id, s.Fee.Amount, minIn)}
		}
		return false
	})
	if bad == nil && left > 0 && len(batch.Transactions) < 100 {
		bad = &engine.Violation{Property: "C10", Rule: "not_highest_fee_selection", Site: "BuildBatchTx", Detail: fmt.Sprintf("%s: the batch holds %d transfers (fewer than 100) and %d are left unbatched", cs.Name, len(batch.Transactions), left)}
	}
	if bad != nil {
		return "bad", bad
	}
	return fmt.Sprintf("batch of %d, %d left", len(batch.Transactions), left), nil
}
